"""A normal form for the formulas of the equivalence classes: products of rational powers of atoms and of *sums*
of such products (nested), e.g.   1/sqrt(1 - x^2 c^-2)  =  Prod(1, {}, {Sum[1, -x^2 c^-2]: -1/2}).

This extends the monomial domain (free abelian group on the atoms) by one constructor - the sum - with exactly the
identities needed to decide formula equality, inverse laws and path laws by rewriting:
  * like terms of a sum are combined, zero terms dropped, a one-term sum is its term;
  * a sum raised to the power 1 inside a sum is spliced in (distribution of the coefficient);
  * (P^a)^b = P^(a b) for sums under a power, P^0 = 1.
Everything is type-level algebra on what the AST says; nothing is evaluated numerically except the literal
coefficients.
"""

from __future__ import annotations

from fractions import Fraction

TOL = 1e-12


def _fr(x):
    return x if isinstance(x, Fraction) else Fraction(x).limit_denominator(10000)


class Prod:
    __slots__ = ("c", "atoms", "sums")

    def __init__(self, c=1.0, atoms=None, sums=None):
        self.c = float(c)
        self.atoms = {k: _fr(v) for k, v in (atoms or {}).items() if _fr(v) != 0}
        self.sums = {}
        for s, e in (sums or {}).items():
            e = _fr(e)
            if e != 0:
                self.sums[s] = self.sums.get(s, 0) + e
        self.sums = {s: e for s, e in self.sums.items() if e != 0}

    # -- constructors ------------------------------------------------------------------------------
    @staticmethod
    def atom(name):
        return Prod(1.0, {name: 1})

    @staticmethod
    def num(v):
        return Prod(float(v))

    # -- structure ---------------------------------------------------------------------------------------
    def body_key(self):
        return (tuple(sorted((k, str(v)) for k, v in self.atoms.items())), tuple(sorted((s.key(), str(e)) for s, e in self.sums.items())))

    def key(self):
        return (round(self.c, 9), self.body_key())

    def is_number(self):
        return not self.atoms and not self.sums

    def __repr__(self):
        parts = []
        if abs(self.c - 1) > TOL or self.is_number():
            parts.append(f"{self.c:.12g}")
        for k, v in sorted(self.atoms.items()):
            parts.append(k if v == 1 else f"{k}^{v}")
        for s, e in sorted(self.sums.items(), key=lambda t: t[0].key()):
            parts.append(f"({s!r})" if e == 1 else f"({s!r})^{e}")
        return " ".join(parts)

    # -- algebra -------------------------------------------------------------------------------------------
    def __mul__(self, o):
        atoms = dict(self.atoms)
        for k, v in o.atoms.items():
            atoms[k] = atoms.get(k, 0) + v
        sums = dict(self.sums)
        for s, e in o.sums.items():
            sums[s] = sums.get(s, 0) + e
        return Prod(self.c * o.c, atoms, sums)

    def __truediv__(self, o):
        return self * (o ** -1)

    def __pow__(self, q):
        q = _fr(q)
        if q == 0:
            return Prod(1.0)
        if self.c < 0 and q.denominator != 1:
            raise ValueError("root of a negative coefficient")
        c = self.c ** float(q) if self.c != 0 else 0.0
        return Prod(c, {k: v * q for k, v in self.atoms.items()}, {s: e * q for s, e in self.sums.items()})

    def same(self, o, tol=1e-9):
        if not isinstance(o, Prod):
            return False
        if abs(self.c - o.c) > tol * max(1.0, abs(self.c), abs(o.c)):
            return False
        if self.atoms != o.atoms or len(self.sums) != len(o.sums):
            return False
        mine = sorted(self.sums.items(), key=lambda t: t[0].key())
        theirs = sorted(o.sums.items(), key=lambda t: t[0].key())
        return all(e1 == e2 and s1.same(s2, tol) for (s1, e1), (s2, e2) in zip(mine, theirs))

    def subst(self, name, val: "Prod"):
        out = Prod(self.c)
        for k, v in self.atoms.items():
            out = out * ((val ** v) if k == name else Prod(1.0, {k: v}))
        for s, e in self.sums.items():
            t = s.subst(name, val)  # a Prod (possibly wrapping a Sum)
            out = out * (t ** e)
        return out


class Sum:
    """two or more terms with pairwise different bodies; built only through add()"""

    __slots__ = ("terms", "_key")

    def __init__(self, terms):
        self.terms = tuple(sorted(terms, key=lambda p: p.key()))
        self._key = tuple(p.key() for p in self.terms)

    def key(self):
        return self._key

    def __hash__(self):
        return hash(self._key)

    def __eq__(self, o):
        return isinstance(o, Sum) and self._key == o._key

    def __repr__(self):
        return " + ".join(repr(t) for t in self.terms)

    def same(self, o, tol=1e-9):
        if len(self.terms) != len(o.terms):
            return False
        a = sorted(self.terms, key=lambda p: p.body_key())
        b = sorted(o.terms, key=lambda p: p.body_key())
        return all(x.same(y, tol) for x, y in zip(a, b))

    def subst(self, name, val):
        return add(*[t.subst(name, val) for t in self.terms])


def _terms_of(p: Prod):
    """a product that is c * (sum)^1 and nothing else is a sum in disguise: its terms, scaled"""
    if not p.atoms and len(p.sums) == 1:
        (s, e), = p.sums.items()
        if e == 1:
            return [Prod(t.c * p.c, t.atoms, t.sums) for t in s.terms]
    return [p]


def add(*ps: Prod) -> Prod:
    flat = []
    for p in ps:
        flat.extend(_terms_of(p))
    merged = {}
    for t in flat:
        k = t.body_key()
        if k in merged:
            merged[k] = Prod(merged[k].c + t.c, t.atoms, t.sums)
        else:
            merged[k] = t
    terms = [t for t in merged.values() if abs(t.c) > TOL]
    if not terms:
        return Prod(0.0)
    if len(terms) == 1:
        return terms[0]
    return Prod(1.0, {}, {Sum(terms): 1})


def sub(a: Prod, b: Prod) -> Prod:
    return add(a, Prod(-b.c, b.atoms, b.sums))
