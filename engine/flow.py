"""Structured control-flow walker over the statement kinds used in unyt.

The walker propagates *sets* of hashable abstract states through a statement
list (path sensitive up to state equality, no lossy join).  A client
subclasses ``Walker`` and overrides

* ``stmt(st, state)``  -> iterable of successor states for a simple statement
* ``test(expr, state, truth)`` -> iterable of states (empty = branch infeasible)
* ``exit(kind, node, state)`` is called for every return / raise / fall-off.

Loops are iterated to a fixpoint on the state set; ``try`` handlers are entered
with every state observed anywhere inside the ``try`` body (an exception can be
raised between any two statements).  Nothing is executed.
"""

from __future__ import annotations

import ast

from .core import AnalysisError

SIMPLE = (
    ast.Assign,
    ast.AugAssign,
    ast.AnnAssign,
    ast.Expr,
    ast.Pass,
    ast.Import,
    ast.ImportFrom,
    ast.Delete,
    ast.Assert,
    ast.Global,
    ast.Nonlocal,
)


class Walker:
    max_states = 20000

    def __init__(self):
        self.exits = []  # (kind, node, state)
        self._try_stack = []  # list of sets collecting states inside try bodies

    # ---- client hooks -----------------------------------------------------
    def stmt(self, st, state):
        return (state,)

    def test(self, expr, state, truth):
        return (state,)

    def exit(self, kind, node, state):
        self.exits.append((kind, node, state))

    def for_iter(self, st, state):
        """state change when binding the loop target"""
        return (state,)

    def handler_entry(self, handler, state):
        return (state,)

    # ---- driver -------------------------------------------------------------
    def run(self, body, init):
        out = self.block(body, frozenset(init))
        for s in out:
            self.exit("fall", None, s)
        return out

    def _observe(self, states):
        for col in self._try_stack:
            col.update(states)

    def block(self, body, states):
        for st in body:
            if not states:
                break
            self._observe(states)
            states = self.one(st, states)
            if len(states) > self.max_states:
                raise AnalysisError("state explosion in flow walker")
        self._observe(states)
        return states

    def one(self, st, states):
        if isinstance(st, SIMPLE):
            out = set()
            for s in states:
                out.update(self.stmt(st, s))
            return frozenset(out)
        if isinstance(st, ast.Return):
            for s in states:
                for s2 in self.stmt(st, s):
                    self.exit("return", st, s2)
            return frozenset()
        if isinstance(st, ast.Raise):
            for s in states:
                for s2 in self.stmt(st, s):
                    self.exit("raise", st, s2)
                    # a raise inside try may be caught: state is observed
                    self._observe([s2])
            return frozenset()
        if isinstance(st, ast.If):
            t, f = set(), set()
            for s in states:
                t.update(self.test(st.test, s, True))
                f.update(self.test(st.test, s, False))
            a = self.block(st.body, frozenset(t))
            b = self.block(st.orelse, frozenset(f))
            return a | b
        if isinstance(st, (ast.For, ast.While)):
            seen = set(states)
            frontier = frozenset(states)
            exits_false = set()
            breaks = set()
            self._loop_break = getattr(self, "_loop_break", [])
            self._loop_break.append(breaks)
            it = 0
            while frontier:
                it += 1
                if it > 50:
                    raise AnalysisError("loop fixpoint not reached")
                entry = set()
                for s in frontier:
                    if isinstance(st, ast.While):
                        entry.update(self.test(st.test, s, True))
                        exits_false.update(self.test(st.test, s, False))
                    else:
                        entry.update(self.for_iter(st, s))
                        exits_false.add(s)
                after = self.block(st.body, frozenset(entry))
                new = after - seen
                seen |= new
                frontier = frozenset(new)
                if isinstance(st, ast.For):
                    exits_false |= after
                else:
                    # re-test handled on next iteration through frontier
                    pass
            self._loop_break.pop()
            out = frozenset(exits_false)
            if st.orelse:
                out = self.block(st.orelse, out)
            return out | frozenset(breaks)
        if isinstance(st, (ast.Break, ast.Continue)):
            if isinstance(st, ast.Break) and getattr(self, "_loop_break", None):
                self._loop_break[-1].update(states)
            # continue: state flows to the loop head; approximated by treating
            # it as end of body (sound for the monotone states used here)
            return frozenset() if isinstance(st, ast.Break) else states
        if isinstance(st, ast.With):
            out = set()
            for s in states:
                cur = [s]
                for item in st.items:
                    nxt = []
                    for c in cur:
                        nxt.extend(self.stmt(ast.Expr(value=item.context_expr), c))
                    cur = nxt
                out.update(cur)
            return self.block(st.body, frozenset(out))
        if isinstance(st, ast.Try):
            col = set()
            self._try_stack.append(col)
            body_out = self.block(st.body, states)
            self._try_stack.pop()
            self._observe(col)
            out = set(self.block(st.orelse, body_out)) if st.orelse else set(body_out)
            for h in st.handlers:
                hin = set()
                for s in col:
                    hin.update(self.handler_entry(h, s))
                out |= self.block(h.body, frozenset(hin))
            if st.finalbody:
                out = set(self.block(st.finalbody, frozenset(out)))
            return frozenset(out)
        if isinstance(st, (ast.FunctionDef, ast.ClassDef)):
            out = set()
            for s in states:
                out.update(self.stmt(st, s))
            return frozenset(out)
        raise AnalysisError(f"flow walker: unsupported statement {type(st).__name__}")


# ---------------------------------------------------------------------------
# path enumeration with conditions (for small functions)


def enum_paths(body, limit=5000):
    """Enumerate acyclic paths through ``body``.  Each path is a list of
    events ``("stmt", node)``, ``("cond", test_node, truth)``,
    ``("handler", handler_node)`` and ends with ``("return"|"raise"|"fall",
    node)``.  Loop bodies are taken 0 or 1 times (``continue``/``break`` jump to
    the statement after the loop).  try/except: the body path plus, for each
    handler, a path that enters the handler after each prefix of the body
    (prefixes cut at statement boundaries)."""
    out = []

    def go(stmts, prefix, k, lk):
        # k: continuation when the block falls through; lk: continuation of the
        # innermost enclosing loop (target of break / continue), or None
        if len(out) > limit:
            raise AnalysisError("path explosion")
        if not stmts:
            k(prefix)
            return
        st, rest = stmts[0], stmts[1:]
        if isinstance(st, ast.Return):
            out.append(prefix + [("return", st)])
        elif isinstance(st, ast.Raise):
            out.append(prefix + [("raise", st)])
        elif isinstance(st, ast.If):
            go(st.body, prefix + [("cond", st.test, True)], lambda p: go(rest, p, k, lk), lk)
            go(st.orelse, prefix + [("cond", st.test, False)], lambda p: go(rest, p, k, lk), lk)
        elif isinstance(st, (ast.For, ast.While)):
            ev = ("loop", st)
            after = lambda p: go(rest, p, k, lk)
            go(rest, prefix + [ev, ("loopskip", st)], k, lk)
            go(st.body, prefix + [ev], after, after)
        elif isinstance(st, ast.With):
            go(st.body, prefix + [("stmt", st)], lambda p: go(rest, p, k, lk), lk)
        elif isinstance(st, ast.Try):
            go(st.body, prefix, lambda p: go(st.orelse + rest, p, k, lk), lk)
            # handler paths: after 0..n statements of the try body (top level)
            for h in st.handlers:
                for cut in range(len(st.body) + 1):
                    def after_prefix(p, h=h):
                        go(h.body, p + [("handler", h)], lambda q: go(rest, q, k, lk), lk)
                    if cut == 0:
                        after_prefix(prefix)
                    else:
                        # statements before the cut ran normally, the cut-th raised
                        go(
                            st.body[: cut - 1],
                            prefix,
                            lambda p, cut=cut, after_prefix=after_prefix: after_prefix(
                                p + [("partial", st.body[cut - 1])]
                            ),
                            lk,
                        )
        elif isinstance(st, (ast.Break, ast.Continue)):
            if lk is not None:
                lk(prefix + [("stmt", st)])
            else:
                # a loop-body fragment is being enumerated on its own
                out.append(prefix + [("stmt", st), ("fall", None)])
        else:
            go(rest, prefix + [("stmt", st)], k, lk)

    # `x = A if C else B` / `return A if C else B` are branches like any other
    from .sem import split_ifexp

    go(split_ifexp(list(body)), [], lambda p: out.append(p + [("fall", None)]), None)
    return out


# ---------------------------------------------------------------------------
# path facts


def decompose(test, truth, out):
    """split a branch condition into atomic facts (normalised text, truth)"""
    from .core import norm

    if isinstance(test, ast.UnaryOp) and isinstance(test.op, ast.Not):
        decompose(test.operand, not truth, out)
    elif isinstance(test, ast.BoolOp) and isinstance(test.op, ast.And) and truth:
        for v in test.values:
            decompose(v, True, out)
    elif isinstance(test, ast.BoolOp) and isinstance(test.op, ast.Or) and not truth:
        for v in test.values:
            decompose(v, False, out)
    elif isinstance(test, ast.Compare) and len(test.ops) == 1 and isinstance(test.ops[0], (ast.IsNot, ast.NotIn)):
        # facts are recorded in positive form: `a is not b` true is `a is b` false
        import copy

        pos = copy.copy(test)
        pos.ops = [ast.Is() if isinstance(test.ops[0], ast.IsNot) else ast.In()]
        out.append((norm(pos), not truth, pos))
    else:
        out.append((norm(test), truth, test))


def path_facts(path):
    """atomic facts established by the branch conditions of a path"""
    out = []
    for ev in path:
        if ev[0] == "cond":
            decompose(ev[1], ev[2], out)
    return out


def path_has_fact(path, text, truth=True):
    return any(t == text and tr == truth for t, tr, _ in path_facts(path))


def path_stmts(path):
    """statement / expression nodes executed on a path (conditions included,
    as their test expressions)"""
    for ev in path:
        if ev[0] in ("stmt", "return", "raise", "partial") and ev[1] is not None:
            yield ev[1]
        elif ev[0] == "cond":
            yield ev[1]
        elif ev[0] == "loop":
            yield ev[1].iter if isinstance(ev[1], ast.For) else ev[1].test


def path_calls(path):
    for st in path_stmts(path):
        for n in ast.walk(st):
            if isinstance(n, ast.Call):
                yield n


def path_end(path):
    return path[-1]


_COMPLEMENT = ((" is not ", " is "), (" not in ", " in "))


def fact_get(fm, text):
    """truth of an atomic condition in a fact map, whichever polarity it was recorded in: facts are stored in positive
    form (`a is b`, `a in b`), a question may be phrased either way"""
    if text in fm:
        return fm[text]
    for neg, pos in _COMPLEMENT:
        if neg in text:
            t = text.replace(neg, pos, 1)
            if t in fm:
                return not fm[t]
        elif pos in text:
            t = text.replace(pos, neg, 1)
            if t in fm:
                return not fm[t]
    return None
