"""Constant folding of unyt's literal definition tables, from the AST.

Nothing of unyt is imported; the evaluator understands exactly the expression
forms the data modules use.  Anything else raises AnalysisError (UNFOLDABLE).
"""

from __future__ import annotations

import ast
import math
from fractions import Fraction

from .core import AnalysisError, Repo, norm

BASE_DIMS = (
    "mass",
    "length",
    "time",
    "temperature",
    "angle",
    "current_mks",
    "luminous_intensity",
    "logarithmic",
)


class DimVec:
    """rational exponent vector over the base dimension symbols"""

    __slots__ = ("e",)

    def __init__(self, e=None):
        self.e = {k: Fraction(v) for k, v in (e or {}).items() if v != 0}

    def __mul__(self, o):
        if isinstance(o, (int, float)) and o == 1:
            return self
        if not isinstance(o, DimVec):
            return NotImplemented
        d = dict(self.e)
        for k, v in o.e.items():
            d[k] = d.get(k, 0) + v
        return DimVec(d)

    __rmul__ = __mul__

    def __truediv__(self, o):
        if isinstance(o, (int, float)) and o == 1:
            return self
        if not isinstance(o, DimVec):
            return NotImplemented
        return self * (o ** -1)

    def __rtruediv__(self, o):
        if o == 1:
            return self ** -1
        return NotImplemented

    def __pow__(self, p):
        p = Fraction(p).limit_denominator(1000) if not isinstance(p, Fraction) else p
        return DimVec({k: v * p for k, v in self.e.items()})

    def __eq__(self, o):
        if isinstance(o, (int, float)) and o == 1:
            return not self.e
        return isinstance(o, DimVec) and self.e == o.e

    def __hash__(self):
        return hash(tuple(sorted(self.e.items())))

    def __repr__(self):
        if not self.e:
            return "1"
        return "*".join(
            f"{k}" + (f"^{v}" if v != 1 else "") for k, v in sorted(self.e.items())
        )

    @property
    def dimless(self):
        return not self.e

    def as_dict(self):
        return {k: str(v) for k, v in sorted(self.e.items())}


ONE = DimVec()


class Pairs(list):
    """an OrderedDict([...]) literal folded as list of (key, value) pairs —
    duplicate keys are preserved"""

    def asdict(self):
        return dict(self)


class Ev:
    def __init__(self, env, what=""):
        self.env = env
        self.what = what

    def fail(self, node):
        raise AnalysisError(f"UNFOLDABLE {self.what}: {norm(node)[:80]}")

    def ev(self, n):
        if isinstance(n, ast.Constant):
            return n.value
        if isinstance(n, ast.Name):
            if n.id in self.env:
                return self.env[n.id]
            if n.id in ("True", "False", "None"):
                return {"True": True, "False": False, "None": None}[n.id]
            self.fail(n)
        if isinstance(n, ast.Attribute):
            if isinstance(n.value, ast.Name):
                base = n.value.id
                if base in ("np", "numpy", "math") and n.attr == "pi":
                    return math.pi
                if base in self.env and isinstance(self.env[base], dict):
                    d = self.env[base]
                    if n.attr in d:
                        return d[n.attr]
            self.fail(n)
        if isinstance(n, ast.UnaryOp):
            v = self.ev(n.operand)
            if isinstance(n.op, ast.USub):
                return -v
            if isinstance(n.op, ast.UAdd):
                return +v
            if isinstance(n.op, ast.Not):
                return not v
            self.fail(n)
        if isinstance(n, ast.BinOp):
            a, b = self.ev(n.left), self.ev(n.right)
            try:
                if isinstance(n.op, ast.Add):
                    return a + b
                if isinstance(n.op, ast.Sub):
                    return a - b
                if isinstance(n.op, ast.Mult):
                    return a * b
                if isinstance(n.op, ast.Div):
                    if isinstance(b, DimVec) and not isinstance(a, DimVec):
                        return b.__rtruediv__(a)
                    return a / b
                if isinstance(n.op, ast.Pow):
                    return a ** b
            except (TypeError, ZeroDivisionError):
                self.fail(n)
            self.fail(n)
        if isinstance(n, ast.Tuple):
            return tuple(self.ev(e) for e in n.elts)
        if isinstance(n, ast.List):
            return [self.ev(e) for e in n.elts]
        if isinstance(n, ast.Dict):
            return Pairs((self.ev(k), self.ev(v)) for k, v in zip(n.keys, n.values))
        if isinstance(n, ast.Call):
            f = norm(n.func)
            if f in ("np.sqrt", "numpy.sqrt", "math.sqrt"):
                return math.sqrt(self.ev(n.args[0]))
            if f in ("np.log", "numpy.log", "math.log") and len(n.args) == 1:
                return math.log(self.ev(n.args[0]))
            if f == "OrderedDict":
                if not n.args:
                    return Pairs()
                v = self.ev(n.args[0])
                return Pairs(tuple(p) for p in v)
            if f == "Symbol":
                name = self.ev(n.args[0])
                if not (name.startswith("(") and name.endswith(")")):
                    self.fail(n)
                return DimVec({name[1:-1]: 1})
            if f == "sympify" and len(n.args) == 1 and self.ev(n.args[0]) == 1:
                return ONE
            if f == "Rational":
                return Fraction(self.ev(n.args[0]), self.ev(n.args[1]))
            self.fail(n)
        self.fail(n)


def _module_assignments(mod):
    """top-level simple assignments in source order: (names, value_node)"""
    for st in mod.tree.body:
        if isinstance(st, ast.Assign):
            names = []
            ok = True
            for t in st.targets:
                if isinstance(t, ast.Name):
                    names.append(t.id)
                else:
                    ok = False
            if ok:
                yield names, st.value, st


class Tables:
    """All folded tables of one repo snapshot."""

    def __init__(self, repo: Repo):
        self.repo = repo
        self.ratios = self._fold_ratios()
        self.dims, self.dim_alias_groups = self._fold_dims()
        self._fold_lut_module()

    # ---- _physical_ratios -------------------------------------------------
    def _fold_ratios(self):
        mod = self.repo.mod("unyt/_physical_ratios.py")
        env = {}
        ev = Ev(env, "_physical_ratios")
        for names, val, _ in _module_assignments(mod):
            v = ev.ev(val)
            for nm in names:
                env[nm] = v
        if len(env) < 100:
            raise AnalysisError(f"_physical_ratios: only {len(env)} names folded")
        return env

    # ---- dimensions ---------------------------------------------------------
    def _fold_dims(self):
        mod = self.repo.mod("unyt/dimensions.py")
        env = {}
        ev = Ev(env, "dimensions")
        groups = []
        for names, val, st in _module_assignments(mod):
            if isinstance(val, (ast.List, ast.Dict)) and names[0] in (
                "base_dimensions",
                "derived_dimensions",
                "dimensions",
                "em_dimensions",
            ):
                try:
                    v = ev.ev(val)
                except AnalysisError:
                    continue
                for nm in names:
                    env[nm] = v
                continue
            if isinstance(val, ast.BinOp) and names[0] == "dimensions":
                continue
            v = ev.ev(val)
            for nm in names:
                env[nm] = v
            if len(names) > 1:
                groups.append(tuple(names))
        for b in BASE_DIMS:
            if env.get(b) != DimVec({b: 1}):
                raise AnalysisError(f"dimensions.{b} is not the base symbol ({env.get(b)})")
        return env, groups

    # ---- _unit_lookup_table -------------------------------------------------
    def _fold_lut_module(self):
        mod = self.repo.mod("unyt/_unit_lookup_table.py")
        env = dict(self.ratios)
        env["dimensions"] = self.dims
        ev = Ev(env, "_unit_lookup_table")
        want = {
            "default_unit_symbol_lut",
            "unit_prefixes",
            "default_base_units",
            "physical_constants",
            "default_unit_name_alternatives",
        }
        got = {}
        # which ratio names does the module import (so an un-imported name is an error)
        imported = set()
        for st in mod.tree.body:
            if isinstance(st, ast.ImportFrom) and st.module == "unyt._physical_ratios":
                imported |= {a.asname or a.name for a in st.names}
        self.lut_imported_ratios = imported
        for names, val, st in _module_assignments(mod):
            if names[0] in want:
                got[names[0]] = ev.ev(val)
            else:
                # other module-level names (hoisted constants, alias lists) are folded where they are literal
                # expressions, so that the tables may refer to them; anything else is simply left unbound
                try:
                    v = ev.ev(val)
                except AnalysisError:
                    continue
                for nm in names:
                    env[nm] = v
        missing = want - set(got)
        if missing:
            raise AnalysisError(f"anchor-missing tables {sorted(missing)}")
        self.lut_pairs = got["default_unit_symbol_lut"]
        self.prefix_pairs = got["unit_prefixes"]
        self.base_units = got["default_base_units"]
        self.constants = got["physical_constants"]
        self.alternatives = got["default_unit_name_alternatives"]
        for k, v in self.lut_pairs:
            if not (isinstance(v, tuple) and len(v) == 5 and isinstance(v[1], DimVec)):
                raise AnalysisError(f"lut row {k!r} has unexpected shape")
        self.lut = dict(self.lut_pairs)
        self.prefixes = dict(self.prefix_pairs)  # last duplicate wins, as in Python
        # raw expression nodes of rows (for dependency questions)
        self.lut_nodes = {}
        node = mod.assign("default_unit_symbol_lut")
        try:
            for elt in node.args[0].elts:
                self.lut_nodes[elt.elts[0].value] = elt.elts[1]
        except Exception:
            raise AnalysisError("default_unit_symbol_lut literal has unexpected shape")
        self.const_nodes = {}
        node = mod.assign("physical_constants")
        try:
            for elt in node.args[0].elts:
                self.const_nodes[elt.elts[0].value] = elt.elts[1]
        except Exception:
            raise AnalysisError("physical_constants literal has unexpected shape")

    # ---- independent name resolver for table unit strings --------------------
    def alias_to_canonical(self):
        m = {}
        for canon, alts in self.alternatives:
            for a in alts:
                m.setdefault(a, canon)
        return m

    def resolve_symbol(self, name):
        """(scale, dimvec, offset) of an atomic unit name, by the documented
        scheme: table symbol, listed alias, prefix+prefixable symbol/alias."""
        lut = self.lut
        if name in lut:
            r = lut[name]
            return (r[0], r[1], r[2])
        al = self.alias_to_canonical()
        if name in al and al[name] in lut:
            r = lut[al[name]]
            return (r[0], r[1], r[2])
        for p, (pv, pword) in self.prefix_pairs:
            for pre in (p, pword):
                if name.startswith(pre) and len(name) > len(pre):
                    rest = name[len(pre):]
                    canon = rest if rest in lut else al.get(rest)
                    if canon in lut and lut[canon][4]:
                        r = lut[canon]
                        return (r[0] * pv, r[1], r[2])
        raise AnalysisError(f"table unit string uses unknown name {name!r}")

    def unit_string(self, s):
        """(scale, dimvec) of a unit expression string occurring in a table"""
        s = s.replace("%", "percent").replace("°", "deg")
        if s.strip() == "":
            return (1.0, ONE)
        try:
            tree = ast.parse(s, mode="eval").body
        except SyntaxError:
            raise AnalysisError(f"table unit string does not parse: {s!r}")

        def go(n):
            if isinstance(n, ast.Name):
                sc, dv, _ = self.resolve_symbol(n.id)
                return (sc, dv)
            if isinstance(n, ast.Constant) and isinstance(n.value, (int, float)):
                return (float(n.value), ONE)
            if isinstance(n, ast.UnaryOp) and isinstance(n.op, ast.USub):
                a = go(n.operand)
                return (-a[0], a[1])
            if isinstance(n, ast.BinOp):
                if isinstance(n.op, ast.Pow):
                    a = go(n.left)
                    p = _num(n.right)
                    return (a[0] ** float(p), a[1] ** p)
                a, b = go(n.left), go(n.right)
                if isinstance(n.op, ast.Mult):
                    return (a[0] * b[0], a[1] * b[1])
                if isinstance(n.op, ast.Div):
                    return (a[0] / b[0], a[1] / b[1])
            if isinstance(n, ast.Call) and norm(n.func) == "sqrt" and len(n.args) == 1:
                a = go(n.args[0])
                return (math.sqrt(a[0]), a[1] ** Fraction(1, 2))
            raise AnalysisError(f"table unit string not understood: {s!r}")

        return go(tree)


def _num(n):
    if isinstance(n, ast.Constant) and isinstance(n.value, (int, float)):
        return Fraction(n.value).limit_denominator(1000)
    if isinstance(n, ast.UnaryOp) and isinstance(n.op, ast.USub):
        return -_num(n.operand)
    if isinstance(n, ast.BinOp) and isinstance(n.op, ast.Div):
        return _num(n.left) / _num(n.right)
    raise AnalysisError(f"exponent not numeric: {norm(n)}")
