"""In-memory source mutation for the thorough tier (liveness + benign twins).

A mutant rewrites the *text* of one function (or module) of the current tree
held in memory; the mutated tree is only parsed and analysed, never executed
and never written to /repo.
"""

from __future__ import annotations

import ast
from dataclasses import dataclass, field

from .core import AnalysisError, Repo


@dataclass
class Mutant:
    name: str
    file: str
    func: str | None  # qualname limiting the region (None: whole module)
    old: str
    new: str
    expect: tuple = ()  # rule ids, one of which must produce a NEW finding
    count: int = 1
    benign: bool = False  # twin: must produce no new finding
    which: int = 0  # index among gated duplicate definitions
    more: list = field(default_factory=list)  # extra (file, func, old, new, count) edits

    def apply(self, repo: Repo) -> Repo | None:
        changes = {}
        edits = [(self.file, self.func, self.old, self.new, self.count, self.which)]
        for e in self.more:
            edits.append(tuple(e) + (0,) * (6 - len(e)))
        for file, func, old, new, count, which in edits:
            src = changes.get(file, repo.sources.get(file))
            if src is None:
                return None
            if func is None:
                lo, hi = 0, len(src)
            else:
                try:
                    mod = repo.mod(file) if file not in changes else None
                    if mod is None:
                        from .core import Mod

                        mod = Mod(file, src)
                    fns = mod.funcs.get(func)
                    if not fns or which >= len(fns):
                        return None
                    node = fns[which].node
                except AnalysisError:
                    return None
                lines = src.splitlines(keepends=True)
                start = node.lineno - 1
                if node.decorator_list:
                    start = min(d.lineno for d in node.decorator_list) - 1
                lo = sum(len(x) for x in lines[:start])
                hi = sum(len(x) for x in lines[: node.end_lineno])
            region = src[lo:hi]
            if region.count(old) != count:
                return None
            region = region.replace(old, new)
            new_src = src[:lo] + region + src[hi:]
            try:
                ast.parse(new_src)
            except SyntaxError:
                raise AnalysisError(f"mutant {self.name} produces a syntax error")
            changes[file] = new_src
        return repo.with_sources(changes)
