"""Units-of-measure type inference for the array-function handlers.

Each handler body is interpreted path by path (paths from flow.enum_paths, loop
bodies taken once) in a domain of

    Bare            data without units (ndarray, scalar, None, bool)
    Text            str
    Par(p)          a parameter object that may or may not carry units
    Un(mono)        a Unit object, as a monomial over atoms U(<param expr>)
    Qn(mono)        a unyt array / quantity carrying unit `mono`
    Tup([...])      tuple of values
    Each(v, over)   a sequence with one `v` per element of parameter `over`
    Unk(reason)     not modelled

Nothing is executed; the interpreter only follows the shape of the code.
"""

from __future__ import annotations

import ast
from fractions import Fraction

from .core import AnalysisError, FuncInfo, norm
from .domains import Mono, SymExp
from .flow import enum_paths


# parameters that NumPy accepts as an (N, D) array or as a sequence of D arrays with the same meaning (np.histogramdd)
ARRAY_OR_SEQUENCE_PARAMS = {"sample"}

class V:
    pass


class Bare(V):
    def __init__(self, kind="data", origin=None):
        self.kind = kind
        self.origin = origin  # 'impl' for results of X._implementation(...)
        self.raw = ()  # (numpy function, position, parameter): operands handed to _implementation as they came in

    def __repr__(self):
        return f"Bare({self.kind})"


class Text(V):
    def __repr__(self):
        return "Text"


class Par(V):
    def __init__(self, expr):
        self.expr = expr

    def __repr__(self):
        return f"Par({self.expr})"


class Un(V):
    def __init__(self, mono):
        self.mono = mono

    def __repr__(self):
        return f"Un({self.mono})"


class Qn(V):
    def __init__(self, mono, data=None):
        self.mono = mono
        self.data = data  # provenance of the numbers ("impl", "param:<p>", ...)

    def __repr__(self):
        return f"Qn({self.mono})"


class Tup(V):
    def __init__(self, items):
        self.items = list(items)

    def __repr__(self):
        return f"Tup({self.items})"


class Each(V):
    def __init__(self, v, over):
        self.v = v
        self.over = over

    def __repr__(self):
        return f"Each({self.v} over {self.over})"


class UnitList(V):
    def __init__(self, monos):
        self.monos = monos


class Unk(V):
    def __init__(self, why=""):
        self.why = why

    def __repr__(self):
        return f"Unk({self.why})"


class Raises(V):
    def __repr__(self):
        return "Raises"


def U(expr):
    return Mono.atom(f"U({expr})")


ONE = Mono(1.0, {})

UNIT_CONSTS = {"NULL_UNIT": ONE}
CTOR_NAMES = {"unyt_array", "unyt_quantity"}
STRIP = {"np.asarray", "np.asanyarray", "np.array", "np.copy"}
VALIDATE = "_validate_units_consistency"
VALIDATE2 = "_validate_units_consistency_v2"


class Outcome:
    def __init__(self, facts, value, effects, groups, impl_calls, conversions, ones=(), infeasible=False):
        self.ones = list(ones)
        self.infeasible = infeasible
        self.facts = facts  # list of (text, truth)
        self.value = value
        self.effects = effects  # list of (kind, target_text, value)
        self.groups = groups  # validated groups (sets of param exprs)
        self.impl_calls = impl_calls
        self.conversions = conversions

    def factmap(self):
        return {t: tr for t, tr in self.facts}


class UnitInterp:
    def __init__(self, repo, mod, helpers, max_depth=3):
        self.repo = repo
        self.mod = mod
        self.helpers = helpers
        self.max_depth = max_depth
        self.unit_const_names = set()
        self.hazards = []  # (node, raw operands): an _implementation result on unstripped operands combined with a unit
        for local, q in mod.imports.items():
            if q in ("unyt.delta_degC", "unyt.unit_symbols.delta_degC", "unyt.delta_degF", "unyt.unit_symbols.delta_degF"):
                self.unit_const_names.add(local)

    # ------------------------------------------------------------------
    def run(self, fn: FuncInfo, args: dict | None = None, depth=0, gate=None):
        """all outcomes (one per path) of calling fn with abstract args"""
        env = {}
        for p in fn.params:
            env[p] = Par(p)
        if fn.vararg:
            env[fn.vararg] = Par(fn.vararg)
        if fn.kwarg:
            env[fn.kwarg] = Bare("kwargs")
        if args:
            env.update(args)
        paths = enum_paths(fn.body, limit=4000)
        # loop bodies are taken exactly once
        paths = [p for p in paths if not any(ev[0] == "loopskip" for ev in p)]
        outs = []
        for p in paths:
            st = _State(dict(env), [], [], [], [], [])
            outs.extend(self._walk(fn, p, 0, st, depth))
        return outs

    def _walk(self, fn, path, i, st, depth):
        while i < len(path):
            ev = path[i]
            kind = ev[0]
            if kind == "stmt":
                forks = self._stmt(fn, ev[1], st, depth)
                if forks is not None:
                    outs = []
                    for st2 in forks:
                        outs.extend(self._walk(fn, path, i + 1, st2, depth))
                    return outs
            elif kind == "cond":
                for n in ast.walk(ev[1]):
                    if isinstance(n, ast.NamedExpr):
                        st.env[n.target.id] = self.ev(fn, n.value, st, depth)
                from .flow import decompose

                tmp = []
                decompose(ev[1], ev[2], tmp)
                for t, tr, node in tmp:
                    st.facts.append((t, tr))
                    # the same fact with locals that merely name a pure expression substituted (nargs = len(args))
                    from .sem import canon_expr

                    t2 = canon_expr(node, fn)
                    if t2 != t:
                        st.facts.append((t2, tr))
                    self._unit_test(fn, node, tr, st, depth)
            elif kind == "loop":
                node = ev[1]
                if isinstance(node, ast.For):
                    self._bind_loop(fn, node, st, depth)
            elif kind == "handler":
                pass
            elif kind == "partial":
                pass
            elif kind == "return":
                node = ev[1]
                if node.value is None:
                    v = Bare("none")
                else:
                    fv = self._ev_fork(fn, node.value, st, depth)
                    if fv is not None:
                        return [Outcome(s.facts, val, s.effects, s.groups, s.impl_calls, s.conversions, s.ones, s.infeasible) for s, val in fv]
                    v = self.ev(fn, node.value, st, depth)
                return [Outcome(st.facts, v, st.effects, st.groups, st.impl_calls, st.conversions, st.ones, st.infeasible)]
            elif kind == "raise":
                return [Outcome(st.facts, Raises(), st.effects, st.groups, st.impl_calls, st.conversions, st.ones, st.infeasible)]
            elif kind == "fall":
                return [Outcome(st.facts, Bare("none"), st.effects, st.groups, st.impl_calls, st.conversions, st.ones, st.infeasible)]
            i += 1
        return [Outcome(st.facts, Bare("none"), st.effects, st.groups, st.impl_calls, st.conversions, st.ones, st.infeasible)]

    def _unit_test(self, fn, node, truth, st, depth):
        """`X != NULL_UNIT` / `X == NULL_UNIT` on a unit-valued X: when the path
        implies X equals the dimensionless unit its atoms are 1 on this path;
        when X is literally 1 and the path claims otherwise the path is infeasible"""
        if not (isinstance(node, ast.Compare) and len(node.ops) == 1 and isinstance(node.ops[0], (ast.Eq, ast.NotEq))):
            return
        l, r = node.left, node.comparators[0]
        if norm(r) != "NULL_UNIT":
            if norm(l) == "NULL_UNIT":
                l, r = r, l
            else:
                return
        v = self.ev(fn, l, st, depth)
        if not isinstance(v, (Un, Qn)) or v.mono.is_opaque:
            return
        equal = truth if isinstance(node.ops[0], ast.Eq) else not truth
        if equal:
            st.ones += list(v.mono.atoms)
        elif not v.mono.atoms:
            st.infeasible = True

    # ------------------------------------------------------------------
    def _helper_call(self, fn, call):
        f = call.func
        if isinstance(f, ast.Name) and f.id in self.helpers and f.id not in (VALIDATE, VALIDATE2, "get_units", "implements"):
            if f.id in fn.params:
                return None
            cands = self.helpers[f.id]
            # prefer a definition under the same gate
            same = [h for h in cands if h.gate == fn.gate]
            return (same or cands)[0]
        return None

    def _ev_fork(self, fn, expr, st, depth):
        """if expr is (directly) a call of a module helper, inline it:
        returns list of (state, value) or None"""
        if isinstance(expr, ast.Call):
            h = self._helper_call(fn, expr)
            if h is not None and depth < self.max_depth:
                from rules.common import bind_call

                b = bind_call(expr, h, skip_self=False)
                args = {}
                for p, a in b.items():
                    if p in ("*", "**", "*extra"):
                        continue
                    args[p] = self.ev(fn, a, st, depth)
                extra = b.get("*extra") or []
                if h.vararg and len(extra) == 1 and "*" not in b:
                    # f(*items) called with exactly one surplus positional actual: items is the one-element tuple
                    # of that actual (with several actuals a loop over items that returns early is not decided
                    # here - the parameter stays opaque)
                    args[h.vararg] = Tup([self.ev(fn, extra[0], st, depth)])
                outs = self.run(h, args, depth + 1)
                res = []
                for o in outs:
                    s2 = st.copy()
                    s2.facts += list(o.facts)
                    s2.effects += o.effects
                    s2.groups += o.groups
                    s2.impl_calls += o.impl_calls
                    s2.conversions += o.conversions
                    s2.ones += o.ones
                    s2.infeasible = s2.infeasible or o.infeasible
                    res.append((s2, o.value))
                return res
        return None

    def _stmt(self, fn, node, st, depth):
        if isinstance(node, ast.Assign):
            fv = self._ev_fork(fn, node.value, st, depth)
            if fv is not None:
                outs = []
                for s2, val in fv:
                    if isinstance(val, Raises):
                        continue
                    for t in node.targets:
                        self._bind(fn, t, val, s2, depth)
                    outs.append(s2)
                return outs
            v = self.ev(fn, node.value, st, depth)
            for t in node.targets:
                self._bind(fn, t, v, st, depth)
            return None
        if isinstance(node, ast.AugAssign):
            cur = self.ev(fn, node.target, st, depth)
            rhs = self.ev(fn, node.value, st, depth)
            v = self._binop(node.op, cur, rhs, node)
            self._bind(fn, node.target, v, st, depth)
            return None
        if isinstance(node, ast.Expr):
            fv = self._ev_fork(fn, node.value, st, depth)
            if fv is not None:
                return [s2 for s2, val in fv if not isinstance(val, Raises)]
            self.ev(fn, node.value, st, depth)
            return None
        if isinstance(node, (ast.Import, ast.ImportFrom, ast.Pass, ast.Break, ast.Continue, ast.Global, ast.Assert, ast.With)):
            return None
        raise AnalysisError(f"{fn.where(node)}: statement not modelled by the unit interpreter: {type(node).__name__}")

    def _bind(self, fn, target, v, st, depth):
        if isinstance(target, ast.Name):
            st.env[target.id] = v
        elif isinstance(target, (ast.Tuple, ast.List)):
            n = len(target.elts)
            for i, el in enumerate(target.elts):
                if isinstance(el, ast.Starred):
                    if isinstance(v, Par):
                        self._bind(fn, el.value, Par(f"{v.expr}[{i}:]"), st, depth)
                    else:
                        self._bind(fn, el.value, Bare("rest"), st, depth)
                    continue
                if isinstance(v, Tup) and i < len(v.items):
                    item = v.items[i]
                elif isinstance(v, Par):
                    item = Par(f"{v.expr}[{i}]")
                elif isinstance(v, Bare):
                    item = Bare(v.kind, v.origin)
                elif isinstance(v, Each):
                    item = v.v
                else:
                    item = Unk("unpack")
                self._bind(fn, el, item, st, depth)
        elif isinstance(target, ast.Attribute):
            st.effects.append(("setattr", norm(target), v))
        elif isinstance(target, ast.Subscript):
            st.effects.append(("setitem", norm(target.value), v))

    def _bind_loop(self, fn, node, st, depth):
        it = node.iter
        if isinstance(it, ast.Call) and norm(it.func) == "zip":
            vals = []
            for a in it.args:
                av = self.ev(fn, a, st, depth)
                vals.append(self._element(av))
            self._bind(fn, node.target, Tup(vals), st, depth)
        elif isinstance(it, ast.Call) and norm(it.func) in ("range", "enumerate"):
            self._bind(fn, node.target, Bare("index"), st, depth)
        else:
            av = self.ev(fn, it, st, depth)
            self._bind(fn, node.target, self._element(av), st, depth)

    def _element(self, av):
        if isinstance(av, Par):
            return Par(f"{av.expr}[i]")
        if isinstance(av, Each):
            return av.v
        if isinstance(av, Tup):
            return av.items[0] if av.items else Bare()
        if isinstance(av, Bare):
            return Bare(av.kind, av.origin)
        return Unk("element")

    # ------------------------------------------------------------------
    def ev(self, fn, e, st, depth):
        env = st.env
        if isinstance(e, ast.Constant):
            if isinstance(e.value, str):
                return Text()
            if e.value is None:
                return Bare("none")
            return Bare("number")
        if isinstance(e, ast.Name):
            if e.id in env:
                return env[e.id]
            if e.id in UNIT_CONSTS:
                return Un(UNIT_CONSTS[e.id])
            if e.id in self.unit_const_names:
                return Un(Mono.atom(f"CONST({e.id})"))
            if e.id in CTOR_NAMES:
                return Bare("class:" + e.id)
            return Bare("global:" + e.id)
        if isinstance(e, ast.JoinedStr):
            return Text()
        if isinstance(e, ast.NamedExpr):
            v = self.ev(fn, e.value, st, depth)
            env[e.target.id] = v
            return v
        if isinstance(e, ast.Attribute):
            base = self.ev(fn, e.value, st, depth)
            if e.attr == "units":
                if isinstance(base, Par):
                    return Un(U(base.expr))
                if isinstance(base, Qn):
                    return Un(base.mono)
                if isinstance(base, Un):
                    return base
                return Unk("units-of-" + repr(base))
            if e.attr in ("value", "d", "v", "ndview"):
                return Bare("data")
            if e.attr in ("T", "real", "imag") and isinstance(base, (Qn, Par)):
                return base
            return Bare("attr:" + e.attr)
        if isinstance(e, ast.Subscript):
            base = self.ev(fn, e.value, st, depth)
            if isinstance(base, Tup) and isinstance(e.slice, ast.Constant) and isinstance(e.slice.value, int):
                if -len(base.items) <= e.slice.value < len(base.items):
                    return base.items[e.slice.value]
            if isinstance(base, Par):
                return Par(f"{base.expr}[{norm(e.slice)}]")
            if isinstance(base, Each):
                return base.v
            if isinstance(base, (Qn, Bare, Text)):
                return base
            return Unk("subscript")
        if isinstance(e, ast.Tuple) or isinstance(e, ast.List):
            items = []
            for el in e.elts:
                if isinstance(el, ast.Starred):
                    sv = self.ev(fn, el.value, st, depth)
                    if isinstance(sv, Tup):
                        items.extend(sv.items)
                    elif isinstance(sv, Bare):
                        items.append(Bare("rest", sv.origin))
                    else:
                        items.append(sv)
                else:
                    items.append(self.ev(fn, el, st, depth))
            if len(items) == 1 and isinstance(e, ast.List) and isinstance(items[0], Par) and items[0].expr in ARRAY_OR_SEQUENCE_PARAMS:
                # [p] for a parameter NumPy accepts as array or as sequence of arrays: the same sample presented as a
                # one-element sequence; its elements carry p's unit, which is what U(p[i]) denotes for an array p
                return items[0]
            return Tup(items)
        if isinstance(e, ast.BinOp):
            a = self.ev(fn, e.left, st, depth)
            b = self.ev(fn, e.right, st, depth)
            if isinstance(e.op, ast.Pow) and isinstance(a, Un):
                return Un(a.mono ** self._exponent(fn, e.right, st))
            if isinstance(e.op, ast.Pow) and isinstance(a, Qn):
                return Qn(a.mono ** self._exponent(fn, e.right, st), a.data)
            return self._binop(e.op, a, b, e)
        if isinstance(e, ast.UnaryOp):
            v = self.ev(fn, e.operand, st, depth)
            if isinstance(e.op, ast.Not):
                return Bare("bool")
            return v
        if isinstance(e, (ast.Compare, ast.BoolOp)):
            for sub in ast.iter_child_nodes(e):
                if isinstance(sub, ast.expr):
                    self.ev(fn, sub, st, depth)
            return Bare("bool")
        if isinstance(e, ast.IfExp):
            a = self.ev(fn, e.body, st, depth)
            b = self.ev(fn, e.orelse, st, depth)
            if type(a) is type(b) and isinstance(a, (Bare, Text)):
                return a
            if isinstance(a, Bare) and a.kind == "none":
                return b
            if isinstance(b, Bare) and b.kind == "none":
                return a
            if isinstance(a, (Un, Qn)) and isinstance(b, type(a)) and a.mono.same(b.mono):
                return a
            if isinstance(a, Bare) and isinstance(b, Bare):
                return a
            return Unk("ifexp")
        if isinstance(e, (ast.ListComp, ast.GeneratorExp)):
            return self._comp(fn, e, st, depth)
        if isinstance(e, ast.Call):
            return self._call(fn, e, st, depth)
        if isinstance(e, ast.Starred):
            return self.ev(fn, e.value, st, depth)
        if isinstance(e, ast.Dict):
            return Bare("dict")
        if isinstance(e, ast.Lambda):
            return Bare("lambda")
        if isinstance(e, ast.Slice):
            return Bare("slice")
        return Unk(type(e).__name__)

    def _comp(self, fn, e, st, depth):
        if len(e.generators) != 1:
            return Unk("comprehension")
        g = e.generators[0]
        saved = dict(st.env)
        over = None
        it = g.iter
        if isinstance(it, ast.Call) and norm(it.func) == "zip":
            vals = []
            for a in it.args:
                av = self.ev(fn, a, st, depth)
                if isinstance(av, Par):
                    over = over or av.expr
                vals.append(self._element(av))
            self._bind(fn, g.target, Tup(vals), st, depth)
        else:
            av = self.ev(fn, it, st, depth)
            if isinstance(av, Par):
                over = av.expr
            self._bind(fn, g.target, self._element(av), st, depth)
        v = self.ev(fn, e.elt, st, depth)
        st.env.clear()
        st.env.update(saved)
        if isinstance(v, Bare):
            return Bare(v.kind, v.origin)
        return Each(v, over)

    def _exponent(self, fn, node, st):
        try:
            val = ast.literal_eval(node)
            if isinstance(val, (int, float)):
                return Fraction(val).limit_denominator(1000)
        except Exception:
            pass
        if isinstance(node, ast.BinOp) and isinstance(node.op, ast.Div):
            try:
                a, b = ast.literal_eval(node.left), ast.literal_eval(node.right)
                return Fraction(a).limit_denominator(1000) / Fraction(b).limit_denominator(1000)
            except Exception:
                pass
        # symbolic: normalise names bound to results of NumPy calls
        import copy

        n2 = copy.deepcopy(node)
        for sub in ast.walk(n2):
            if isinstance(sub, ast.Name):
                v = st.env.get(sub.id)
                if isinstance(v, Bare) and v.origin == "impl":
                    sub.id = "RESULT"
        txt = norm(n2)
        if txt.startswith("(") and txt.endswith(")"):
            txt = txt[1:-1]
        return SymExp(txt)

    def _binop(self, op, a, b, node):
        if isinstance(op, ast.Add) and (isinstance(a, Text) or isinstance(b, Text)):
            return Text()
        if isinstance(a, Unk) or isinstance(b, Unk):
            return Unk("binop")
        if isinstance(a, Each) or isinstance(b, Each):
            return Unk("binop-each")
        mul = isinstance(op, ast.Mult)
        div = isinstance(op, (ast.Div, ast.FloorDiv))
        if not (mul or div):
            if isinstance(a, Qn):
                return a
            if isinstance(b, Qn):
                return b
            return Bare("data")

        def mono_of(x):
            if isinstance(x, (Un, Qn)):
                return x.mono
            if isinstance(x, Par):
                return U(x.expr)
            return ONE

        ma, mb = mono_of(a), mono_of(b)
        m = ma * mb if mul else ma / mb
        for x, y in ((a, b), (b, a)):
            if isinstance(x, Bare) and x.raw and isinstance(y, Un):
                self.hazards.append((node, x.raw, y.mono))
        unitlike = lambda x: isinstance(x, Un)
        datalike = lambda x: isinstance(x, (Bare, Qn, Par))
        if unitlike(a) and unitlike(b):
            return Un(m)
        if isinstance(a, Bare) and isinstance(b, Bare):
            return Bare("data", a.origin or b.origin)
        if datalike(a) or datalike(b):
            data = None
            for x in (a, b):
                if isinstance(x, Bare) and x.origin:
                    data = x.origin
                if isinstance(x, Qn) and x.data:
                    data = x.data
                if isinstance(x, Par):
                    data = f"param:{x.expr}"
            return Qn(m, data)
        return Unk("binop")

    def _params_in(self, fn, e, st, depth):
        """parameter expressions mentioned by a validator argument"""
        out = []
        v = self.ev(fn, e, st, depth)

        def go(x):
            if isinstance(x, Par):
                out.append(x.expr)
            elif isinstance(x, Tup):
                for it in x.items:
                    go(it)
            elif isinstance(x, Each):
                go(x.v)
            elif isinstance(x, Qn):
                # e.g. (1 * ref_units): the owner of the unit
                if not x.mono.is_opaque:
                    for k in x.mono.atoms:
                        if k.startswith("U("):
                            out.append(k[2:-1])
            elif isinstance(x, Un):
                if not x.mono.is_opaque:
                    for k in x.mono.atoms:
                        if k.startswith("U("):
                            out.append(k[2:-1])

        go(v)
        return out

    def _call(self, fn, e, st, depth):
        f = e.func
        ftxt = norm(f)
        # validators --------------------------------------------------------
        if ftxt == VALIDATE:
            grp = []
            for a in e.args:
                grp += self._params_in(fn, a, st, depth)
            st.groups.append(frozenset(grp))
            if not grp:
                return Unk("validator-without-params")
            return Un(U(sorted(grp)[0]))
        if ftxt == VALIDATE2:
            grp = []
            for a in e.args:
                grp += self._params_in(fn, a, st, depth)
            st.groups.append(frozenset(grp))
            return Bare("none")
        if ftxt in ("_multiply_units", "_divide_units") and len(e.args) == 2:
            # the ufunc unit rules return (coefficient, simplified unit) with  u1 (*|/) u2 == coefficient * unit:
            # the unit alone is the product divided by a numeric coefficient, which the caller has to apply to the data
            a_, b_ = self.ev(fn, e.args[0], st, depth), self.ev(fn, e.args[1], st, depth)
            if isinstance(a_, Un) and isinstance(b_, Un):
                coef = Mono.atom(f"coefficient-split-off-by{ftxt}")
                m_ = a_.mono * b_.mono if ftxt == "_multiply_units" else a_.mono / b_.mono
                return Tup([Qn(coef), Un(m_ / coef)])
            return Unk("unit-rule")
        if ftxt == "get_units":
            v = self.ev(fn, e.args[0], st, depth)
            if isinstance(v, Tup):
                ms = []
                for it in v.items:
                    ms.append(U(it.expr) if isinstance(it, Par) else (it.mono if isinstance(it, (Qn, Un)) else ONE))
                return UnitList(ms)
            if isinstance(v, Par):
                # units of every element of a sequence parameter: their product
                # is written U(p)^{len(p)} (p = root name of the sequence)
                root = v.expr.split("[")[0]
                return UnitList([U(root) ** SymExp(f"len({root})")])
            return Unk("get_units")
        if ftxt in ("np.prod", "numpy.prod") and e.args:
            v = self.ev(fn, e.args[0], st, depth)
            if isinstance(v, UnitList):
                m = ONE
                for x in v.monos:
                    m = m * x
                return Un(m)
        if ftxt == "getattr" and len(e.args) >= 2 and isinstance(e.args[1], ast.Constant):
            base = self.ev(fn, e.args[0], st, depth)
            attr = e.args[1].value
            if attr == "units":
                if isinstance(base, Par):
                    return Un(U(base.expr))
                if isinstance(base, Qn):
                    return Un(base.mono)
                if len(e.args) > 2:
                    return self.ev(fn, e.args[2], st, depth)
                return Unk("getattr-units")
            return Bare("attr:" + str(attr))
        # implementation / numpy ------------------------------------------------
        if isinstance(f, ast.Attribute) and f.attr == "_implementation":
            for a in e.args:
                self.ev(fn, a, st, depth)
            for k in e.keywords:
                self.ev(fn, k.value, st, depth)
            st.impl_calls.append((e, list(st.groups)))
            out = Bare("data", "impl")
            raw = []
            for i, a in enumerate(e.args):
                star = isinstance(a, ast.Starred)
                n = a.value if star else a
                if isinstance(n, ast.Name) and isinstance(st.env.get(n.id), Par):
                    raw.append((norm(f.value), "*" if star else i, st.env[n.id].expr, n.id))
            out.raw = tuple(raw)
            return out
        if ftxt in STRIP:
            v = self.ev(fn, e.args[0], st, depth) if e.args else Bare()
            if isinstance(v, Par):
                return Bare("data", f"param:{v.expr}")
            if isinstance(v, Qn):
                return Bare("data", v.data)
            return Bare("data", getattr(v, "origin", None))
        if ftxt in CTOR_NAMES or (isinstance(f, ast.Name) and isinstance(st.env.get(f.id), Bare) and str(st.env[f.id].kind).startswith("class:")):
            args = [self.ev(fn, a, st, depth) for a in e.args]
            kw = {k.arg: self.ev(fn, k.value, st, depth) for k in e.keywords if k.arg}
            data = args[0] if args else Bare()
            u = args[1] if len(args) > 1 else kw.get("units")
            prov = getattr(data, "origin", None) or getattr(data, "data", None) or (f"param:{data.expr}" if isinstance(data, Par) else None)
            if isinstance(u, Un):
                return Qn(u.mono, prov)
            if u is None and isinstance(data, Qn):
                return data
            if u is None and isinstance(data, Par):
                return Qn(U(data.expr), prov)
            if u is None:
                return Qn(ONE, prov)
            return Unk("ctor-units")
        if ftxt in ("tuple", "list") and len(e.args) == 1:
            return self.ev(fn, e.args[0], st, depth)
        if ftxt in ("isinstance", "hasattr", "len", "all", "any", "bool", "int", "float", "issubclass", "callable"):
            for a in e.args:
                self.ev(fn, a, st, depth)
            return Bare("bool")
        if ftxt in ("str", "repr") or ftxt.endswith(".__repr__") or ftxt.endswith(".replace") or ftxt.endswith(".format"):
            return Text()
        if ftxt.startswith("warnings."):
            return Bare("none")
        # helper inlined in expression position (not at statement level): use first non-raising outcome
        h = self._helper_call(fn, e)
        if h is not None and depth < self.max_depth:
            fv = self._ev_fork(fn, e, st, depth)
            vals = [val for s2, val in fv if not isinstance(val, Raises)]
            for s2, val in fv:
                st.groups += [g for g in s2.groups if g not in st.groups]
            if vals:
                return vals[0]
            return Raises()
        # methods ----------------------------------------------------------------
        if isinstance(f, ast.Attribute):
            base = self.ev(fn, f.value, st, depth)
            if f.attr in ("to", "in_units") and e.args:
                tgt = self.ev(fn, e.args[0], st, depth)
                st.conversions.append((norm(f.value), norm(e.args[0])))
                if isinstance(tgt, Un):
                    return Qn(tgt.mono, "converted")
                return Unk("conversion-target")
            if f.attr == "to_value":
                if e.args:
                    st.conversions.append((norm(f.value), norm(e.args[0])))
                return Bare("data", "converted")
            if f.attr == "view":
                if e.args and norm(e.args[0]) == "np.ndarray":
                    return Bare("data", getattr(base, "origin", None) or getattr(base, "data", None))
                return base
            if f.attr in ("copy", "squeeze", "reshape", "ravel", "flatten", "astype", "transpose"):
                return base
            if f.attr in ("append", "extend"):
                return Bare("none")
            if isinstance(base, Un):
                if f.attr == "simplify" and not e.args:
                    return base  # same unit, other spelling
                if f.attr == "as_coeff_unit" and not e.args:
                    # (numeric coefficient, unit without it): the second element alone is NOT the unit any more
                    rest = base.mono * Mono.atom("COEFFICIENT-SPLIT-OFF")
                    return Tup([Bare("data"), Un(rest)])
                if f.attr in ("get_base_equivalent", "get_cgs_equivalent", "get_mks_equivalent"):
                    return Un(base.mono * Mono.atom("SCALE-CHANGED"))
            if isinstance(base, Bare) and not base.kind.startswith(("global:", "class:", "attr:")) and base.kind in ("data",):
                # a method of a bare ndarray returns bare data (ndarray.dot, .sum, .take, ...)
                for a in e.args:
                    self.ev(fn, a, st, depth)
                return Bare("data", base.origin or "numpy")
            if isinstance(base, Bare) and base.kind.startswith("global:np") or ftxt.startswith(("np.", "numpy.")):
                for a in e.args:
                    self.ev(fn, a, st, depth)
                return Bare("data", "numpy")
            return Unk("method:" + f.attr)
        if isinstance(f, ast.Name) and isinstance(st.env.get(f.id), Par):
            return Unk("callback")
        return Unk("call:" + ftxt)


class _State:
    def __init__(self, env, facts, effects, groups, impl_calls, conversions, ones=None, infeasible=False):
        self.env, self.facts, self.effects, self.groups = env, facts, effects, groups
        self.impl_calls, self.conversions = impl_calls, conversions
        self.ones = ones if ones is not None else []  # unit atoms known to be 1 on this path
        self.infeasible = infeasible

    def copy(self):
        return _State(dict(self.env), list(self.facts), list(self.effects), list(self.groups), list(self.impl_calls), list(self.conversions), list(self.ones), self.infeasible)


def canonical(mono: Mono, groups) -> Mono:
    """rename U(p) atoms so that all members of one validated group are the
    same atom U(<smallest root name of the group>)"""
    if mono.is_opaque:
        return mono
    out = Mono(mono.c, {})
    for k, v in mono.atoms.items():
        name = k
        if k.startswith("U("):
            expr = k[2:-1]
            root = expr.split("[")[0]
            for g in groups:
                roots = {x.split("[")[0] for x in g}
                if root in roots or expr in g:
                    name = f"U({sorted(roots)[0]})"
                    break
            else:
                name = f"U({expr})"
        out = out * Mono(1.0, {name: v})
    return out
