"""Reaching-definition expansion for single-assignment locals.

``Expander(fn).expand(node)`` returns the normalised text of ``node`` with
every local name that is assigned exactly once in the function (and never
augmented, deleted or used as a loop target) replaced by its defining
expression, recursively.  Tuple unpacking ``a, b = f(x)`` defines ``a`` as
``f(x)[0]``.  This lets rules be phrased on *what value reaches a use* rather
than on the text of one statement, so renaming or hoisting locals is neutral.
"""

from __future__ import annotations

import ast
import copy

from .core import norm, walk_no_nested


class Expander:
    def __init__(self, fn, extra_multi_ok=()):
        self.fn = fn
        counts = {}
        defs = {}
        params = set(fn.params) | ({fn.vararg} if fn.vararg else set()) | ({fn.kwarg} if fn.kwarg else set())

        def bump(name, val):
            counts[name] = counts.get(name, 0) + 1
            defs[name] = val

        for n in walk_no_nested(fn.node):
            if isinstance(n, ast.Assign):
                for t in n.targets:
                    if isinstance(t, ast.Name):
                        bump(t.id, n.value)
                    elif isinstance(t, (ast.Tuple, ast.List)):
                        for i, e in enumerate(t.elts):
                            if isinstance(e, ast.Name):
                                bump(
                                    e.id,
                                    ast.Subscript(
                                        value=n.value,
                                        slice=ast.Constant(value=i),
                                        ctx=ast.Load(),
                                    ),
                                )
                            elif isinstance(e, (ast.Tuple, ast.List)):
                                for j, e2 in enumerate(e.elts):
                                    if isinstance(e2, ast.Name):
                                        bump(
                                            e2.id,
                                            ast.Subscript(
                                                value=ast.Subscript(value=n.value, slice=ast.Constant(value=i), ctx=ast.Load()),
                                                slice=ast.Constant(value=j),
                                                ctx=ast.Load(),
                                            ),
                                        )
            elif isinstance(n, ast.AugAssign) and isinstance(n.target, ast.Name):
                counts[n.target.id] = counts.get(n.target.id, 0) + 10
            elif isinstance(n, (ast.For, ast.comprehension)):
                for e in ast.walk(n.target):
                    if isinstance(e, ast.Name):
                        counts[e.id] = counts.get(e.id, 0) + 10
            elif isinstance(n, ast.NamedExpr) and isinstance(n.target, ast.Name):
                bump(n.target.id, n.value)
            elif isinstance(n, ast.ExceptHandler) and n.name:
                counts[n.name] = counts.get(n.name, 0) + 10
        self.defs = {
            k: v for k, v in defs.items() if counts.get(k) == 1 and k not in params
        }
        self.multi = {k for k, c in counts.items() if c != 1}

    def expand_node(self, node, depth=8):
        defs = self.defs

        class T(ast.NodeTransformer):
            def visit_Name(s, n):
                if isinstance(n.ctx, ast.Load) and n.id in defs and depth > 0:
                    return self.expand_node(copy.deepcopy(defs[n.id]), depth - 1)
                return n

        return T().visit(copy.deepcopy(node))

    def expand(self, node) -> str:
        return norm(self.expand_node(node))


def factors(node):
    """multiset (sorted list) of the texts of the multiplicative factors of an
    expression tree of ``*`` nodes"""
    out = []

    def go(n):
        if isinstance(n, ast.BinOp) and isinstance(n.op, ast.Mult):
            go(n.left)
            go(n.right)
        else:
            out.append(norm(n))

    go(node)
    return sorted(out)
