"""Normal form of the syntax tree, applied to every module before any rule looks at it.

Python offers several spellings for one computation; a rule that asked for one of them would fire on a rewrite that
leaves behaviour unchanged.  Each rewrite below maps provably equivalent spellings to ONE representative, so that the
rules (which are written against the representative) cannot distinguish them.  Every step preserves the behaviour of
the code for all inputs:

  N1  `not (a is b)` -> `a is not b`, `not (a in b)` -> `a not in b` and the reverse pairs   (what the operators mean)
  N2  operands of `is` / `is not` ordered: the operand rooted in a local or parameter on the left, the module-level
      name / constant on the right; two of the same kind in text order         (identity is symmetric)
  N3  `x in [a, b]` -> `x in (a, b)`  (also `not in`)                          (membership in a display literal)
  N4  keyword arguments of a call sorted by name when every argument expression is free of calls (evaluation order
      of side-effect free expressions is unobservable)
  N5  `if not C: A else: B` -> `if C: B else: A`, `if a is not b: A else: B` -> `if a is b: B else: A`
      (plain if/else only, never elif chains)
  N7  tests of if / while / conditional expressions / comprehension filters in negation normal form: `not` pushed
      through and / or (De Morgan; short-circuit order unchanged, only truthiness is observed there) and folded into
      is / in comparisons
  N8  a local bound once to a call-free expression and read once, in the very next simple statement, where no other
      call is evaluated  -> the expression is substituted for the read
  N10 `if C: A else: B` where A ends in return / raise / continue / break  ->  `if C: A` followed by B; where only B
      does  ->  `if not C: B` followed by A
  N9  `if C: A  REST`, where A and REST both end in return / raise, is an if/else in disguise: the guard branch is chosen
      by content (the smaller one, else the raising one, else the one under the positive test), not by the author
  N11 `X = []` followed by `for t in IT: X.append(E)` -> `X = [E for t in IT]` (also the if/else-append form -> a
      conditional expression as element)
  N12 a parameterless local function that only returns an expression (or an if/else of such returns) and is only ever
      called is inlined at its call sites
  N15 h(a) for a module-level `first item with a units attribute, else D` helper h(*items) is getattr(a, 'units', D)
  N14 a direct call of an undecorated module-level function of the same module whose body is a single `return E` is E
      with the arguments substituted (when every argument is simple, or every parameter is used once and E has no inner call)
  N12b a local function that is only called as a statement with plain names as arguments, and neither returns a value
      nor returns early, is its body at each call site (parameters replaced by the argument names)
  N14b `t = h(a, b)` with h a small non-recursive module-level function whose returns are all in tail position and whose
      arguments are plain names: h's body with `return E` replaced by `t = E` (locals renamed apart)
  N6  `t = E` immediately followed by `return t`, where every binding of the local t is such a pair and t is used
      nowhere else  -> `return E`

tools/benign_probe.py applies the inverse rewrites function by function and demands silence from every check.
"""

from __future__ import annotations

import ast

from . import roles


def _pure_simple(e):
    return not any(isinstance(x, (ast.Call, ast.Await, ast.Yield, ast.YieldFrom, ast.NamedExpr, ast.Lambda, ast.ListComp, ast.SetComp, ast.DictComp, ast.GeneratorExp)) for x in ast.walk(e))


def _root(e):
    while isinstance(e, (ast.Attribute, ast.Subscript)):
        e = e.value
    return e


class _Expr(ast.NodeTransformer):
    def __init__(self, localish):
        self.localish = localish

    # N1
    def visit_UnaryOp(self, n):
        self.generic_visit(n)
        if isinstance(n.op, ast.Not) and isinstance(n.operand, ast.Compare) and len(n.operand.ops) == 1:
            c = n.operand
            flip = {ast.Is: ast.IsNot, ast.IsNot: ast.Is, ast.In: ast.NotIn, ast.NotIn: ast.In}
            if type(c.ops[0]) in flip:
                c.ops = [flip[type(c.ops[0])]()]
                return c
        return n

    def _kind(self, e):
        r = _root(e)
        if isinstance(e, ast.Constant):
            return 2
        if isinstance(r, ast.Name) and r.id in self.localish:
            return 0
        if isinstance(r, ast.Name):
            return 1
        return 0  # calls and other computed values behave like locals: left

    def visit_Compare(self, c):
        self.generic_visit(c)
        if len(c.ops) == 1:
            op = c.ops[0]
            if isinstance(op, (ast.In, ast.NotIn)) and isinstance(c.comparators[0], ast.List) and c.comparators[0].elts:
                c.comparators = [ast.Tuple(elts=c.comparators[0].elts, ctx=ast.Load())]
            if isinstance(op, (ast.Is, ast.IsNot)):
                l, r = c.left, c.comparators[0]
                if _pure_simple(l) and _pure_simple(r):
                    kl, kr = self._kind(l), self._kind(r)
                    if kl > kr or (kl == kr and ast.unparse(l) > ast.unparse(r)):
                        c.left, c.comparators = r, [l]
        return c

    def visit_Call(self, c):
        self.generic_visit(c)
        named = [k for k in c.keywords if k.arg is not None]
        if len(named) >= 2:
            if all(_pure_simple(k.value) for k in c.keywords) and all(_pure_simple(a) for a in c.args):
                # **mapping stays where it is relative to nothing observable: named ones first, sorted; ** last
                stars = [k for k in c.keywords if k.arg is None]
                if not stars or c.keywords[-len(stars):] == stars:
                    c.keywords = sorted(named, key=lambda k: k.arg) + stars
        return c

    def visit_FunctionDef(self, n):
        return n  # nested functions are normalised on their own

    visit_AsyncFunctionDef = visit_FunctionDef
    visit_Lambda = ast.NodeTransformer.generic_visit


_FLIP = {ast.Is: ast.IsNot, ast.IsNot: ast.Is, ast.In: ast.NotIn, ast.NotIn: ast.In}


def _nnf(t, neg=False):
    """negation normal form of a *test* (only truthiness is observed): negations are pushed through and/or (De Morgan,
    short-circuit order preserved) and folded into is / in comparisons; other atoms keep an explicit `not`"""
    if isinstance(t, ast.UnaryOp) and isinstance(t.op, ast.Not):
        return _nnf(t.operand, not neg)
    if isinstance(t, ast.BoolOp):
        op = t.op
        if neg:
            op = ast.Or() if isinstance(t.op, ast.And) else ast.And()
        vals = []
        for v in t.values:
            w = _nnf(v, neg)
            # flatten nested same-operator groups
            if isinstance(w, ast.BoolOp) and type(w.op) is type(op):
                vals.extend(w.values)
            else:
                vals.append(w)
        return ast.copy_location(ast.BoolOp(op=op, values=vals), t)
    if neg:
        if isinstance(t, ast.Compare) and len(t.ops) == 1 and type(t.ops[0]) in _FLIP:
            return ast.copy_location(ast.Compare(left=t.left, ops=[_FLIP[type(t.ops[0])]()], comparators=t.comparators), t)
        return ast.copy_location(ast.UnaryOp(op=ast.Not(), operand=t), t)
    return t


class _Tests(ast.NodeTransformer):
    """N7 applied to every test position"""

    def visit_If(self, n):
        self.generic_visit(n)
        n.test = _nnf(n.test)
        return n

    visit_While = visit_If

    def visit_IfExp(self, n):
        self.generic_visit(n)
        n.test = _nnf(n.test)
        return n

    def visit_Assert(self, n):
        self.generic_visit(n)
        n.test = _nnf(n.test)
        return n

    def visit_comprehension(self, n):
        self.generic_visit(n)
        n.ifs = [_nnf(i) for i in n.ifs]
        return n

    def visit_FunctionDef(self, n):
        return n

    visit_AsyncFunctionDef = visit_FunctionDef


def _names_used(fn):
    cnt = {}
    for x in ast.walk(fn):
        if isinstance(x, ast.Name):
            cnt.setdefault(x.id, [0, 0])
            cnt[x.id][0 if isinstance(x.ctx, ast.Store) else 1] += 1
    return cnt


def _inline_into(stmt, name, value):
    """N8: replace the single use of `name` in the simple statement `stmt` by `value` when nothing with a call is
    evaluated in that statement except the calls the use is an argument of (so no side effect can come between the
    original evaluation point of `value` and its use).  Returns True when done."""
    if isinstance(stmt, (ast.If, ast.For, ast.While, ast.With, ast.Try, ast.FunctionDef, ast.AsyncFunctionDef, ast.ClassDef, ast.Match)):
        return False
    uses = [x for x in ast.walk(stmt) if isinstance(x, ast.Name) and x.id == name and isinstance(x.ctx, ast.Load)]
    if len(uses) != 1:
        return False
    use = uses[0]
    # ancestors of the use
    parent = {}
    for p_ in ast.walk(stmt):
        for c in ast.iter_child_nodes(p_):
            parent[id(c)] = p_
    anc = set()
    cur = use
    while id(cur) in parent:
        cur = parent[id(cur)]
        anc.add(id(cur))
    for c in ast.walk(stmt):
        if isinstance(c, (ast.Call, ast.Await, ast.Yield, ast.YieldFrom, ast.NamedExpr, ast.Lambda, ast.ListComp, ast.SetComp, ast.DictComp, ast.GeneratorExp)) and id(c) not in anc:
            return False
    # a store to a name the value reads, in the same statement, happens after the evaluation of the right-hand side
    class R(ast.NodeTransformer):
        def visit_Name(self, n):
            return value if n is use else n

    R().visit(stmt)
    return True


def _stmts(fn, localish, counts):
    """N5, N6 over every statement list of the function"""

    def leaves(b):
        return bool(b) and isinstance(b[-1], (ast.Return, ast.Raise))

    def size(b):
        return sum(1 for s_ in b for x in ast.walk(s_) if isinstance(x, ast.stmt))

    def negative(t):
        return (isinstance(t, ast.UnaryOp) and isinstance(t.op, ast.Not)) or (isinstance(t, ast.Compare) and len(t.ops) == 1 and isinstance(t.ops[0], (ast.IsNot, ast.NotIn)))

    def guard_form(body):
        """N9: `if C: A  REST` where A and REST both end in return / raise is an if/else in disguise; the branch written
        as the guard is chosen by content, not by the author: the smaller one, else the one that ends in `raise`, else
        the one under the positive test"""
        for i, s_ in enumerate(body):
            if isinstance(s_, ast.If) and not s_.orelse and leaves(s_.body) and i + 1 < len(body) and leaves(body[i + 1:]):
                a_, rest = s_.body, body[i + 1:]
                ra, rr = isinstance(a_[-1], ast.Raise), isinstance(rest[-1], ast.Raise)
                if size(a_) != size(rest):
                    flip = size(rest) < size(a_)
                elif ra != rr:
                    flip = rr
                else:
                    flip = negative(s_.test)
                if flip:
                    new_if = ast.If(test=_nnf(s_.test, True), body=rest, orelse=[])
                    ast.copy_location(new_if, s_)
                    return body[:i] + [new_if] + a_
                return body
        return body

    def hoist(body):
        """N10: `if C: A else: B` where A ends in return / raise / continue / break is `if C: A` followed by B"""
        out = []
        for s_ in body:
            LEAVE = (ast.Return, ast.Raise, ast.Continue, ast.Break)
            if isinstance(s_, ast.If) and s_.orelse and s_.body and isinstance(s_.body[-1], LEAVE):
                rest = s_.orelse
                s_.orelse = []
                out.append(s_)
                out.extend(hoist(rest))
            elif isinstance(s_, ast.If) and s_.orelse and isinstance(s_.orelse[-1], LEAVE) and not (len(s_.orelse) == 1 and isinstance(s_.orelse[0], ast.If)):
                # only the else branch leaves: it becomes the guard
                rest = s_.body
                s_.test, s_.body, s_.orelse = _nnf(s_.test, True), s_.orelse, []
                out.append(s_)
                out.extend(hoist(rest))
            else:
                out.append(s_)
        return out

    def append_loop(init, loop):
        """N11: `X = []` directly followed by `for t in IT: X.append(E)` (or `if C: X.append(A) else: X.append(B)`), no
        else-arm on the loop, E / C / IT free of X  ->  `X = [E for t in IT]`.  Same elements in the same order, the same
        calls in the same order; X is not observable between the two statements."""
        if not (isinstance(init, ast.Assign) and len(init.targets) == 1 and isinstance(init.targets[0], ast.Name) and isinstance(init.value, ast.List) and not init.value.elts):
            return None
        x = init.targets[0].id
        if not (isinstance(loop, ast.For) and not loop.orelse and len(loop.body) == 1):
            return None

        def appended(st):
            if isinstance(st, ast.Expr) and isinstance(st.value, ast.Call) and isinstance(st.value.func, ast.Attribute) and st.value.func.attr == "append" and isinstance(st.value.func.value, ast.Name) and st.value.func.value.id == x and len(st.value.args) == 1 and not st.value.keywords:
                return st.value.args[0]
            return None

        b = loop.body[0]
        elt = appended(b)
        if elt is None and isinstance(b, ast.If) and len(b.body) == 1 and len(b.orelse) == 1:
            a1, a2 = appended(b.body[0]), appended(b.orelse[0])
            if a1 is not None and a2 is not None:
                elt = ast.IfExp(test=b.test, body=a1, orelse=a2)
        if elt is None:
            return None
        for part in (elt, loop.iter, loop.target):
            if any(isinstance(n, ast.Name) and n.id == x for n in ast.walk(part)):
                return None
        if any(isinstance(n, (ast.Yield, ast.YieldFrom, ast.Await, ast.NamedExpr)) for n in ast.walk(elt)):
            return None
        comp = ast.ListComp(elt=elt, generators=[ast.comprehension(target=loop.target, iter=loop.iter, ifs=[], is_async=0)])
        new = ast.Assign(targets=init.targets, value=comp)
        return ast.copy_location(new, init)

    def do_list(body):
        body = guard_form(hoist(body))
        merged = []
        k = 0
        while k < len(body):
            if k + 1 < len(body):
                m_ = append_loop(body[k], body[k + 1])
                if m_ is not None:
                    merged.append(ast.fix_missing_locations(m_))
                    k += 2
                    continue
            merged.append(body[k])
            k += 1
        body = merged
        out = []
        i = 0
        while i < len(body):
            s = body[i]
            do_stmt(s)
            if (
                isinstance(s, ast.Assign) and len(s.targets) == 1 and isinstance(s.targets[0], ast.Name) and i + 1 < len(body)
                and isinstance(body[i + 1], ast.Return) and isinstance(body[i + 1].value, ast.Name) and body[i + 1].value.id == s.targets[0].id
                and s.targets[0].id in inlinable
            ):
                r = body[i + 1]
                r.value = s.value
                out.append(r)
                i += 2
                continue
            if (
                isinstance(s, ast.Assign) and len(s.targets) == 1 and isinstance(s.targets[0], ast.Name) and i + 1 < len(body)
                and s.targets[0].id in localish and counts.get(s.targets[0].id) == [1, 1] and _pure_simple(s.value)
                and not isinstance(s.value, (ast.Name, ast.Constant)) and not any(isinstance(x, ast.IfExp) for x in ast.walk(s.value))
                and _inline_into(body[i + 1], s.targets[0].id, s.value)
            ):
                i += 1
                continue
            out.append(s)
            i += 1
        return out

    def do_stmt(s):
        if isinstance(s, (ast.FunctionDef, ast.AsyncFunctionDef, ast.ClassDef)):
            return
        for fld in ("body", "orelse", "finalbody"):
            b = getattr(s, fld, None)
            if isinstance(b, list) and b and isinstance(b[0], ast.stmt):
                setattr(s, fld, do_list(b))
        for h in getattr(s, "handlers", []) or []:
            h.body = do_list(h.body)
        if isinstance(s, ast.Match):
            for c in s.cases:
                c.body = do_list(c.body)
        if isinstance(s, ast.If) and s.orelse and not (len(s.orelse) == 1 and isinstance(s.orelse[0], ast.If)):
            t = s.test
            if isinstance(t, ast.UnaryOp) and isinstance(t.op, ast.Not):
                s.test, s.body, s.orelse = t.operand, s.orelse, s.body
            elif isinstance(t, ast.Compare) and len(t.ops) == 1 and isinstance(t.ops[0], (ast.IsNot, ast.NotIn)):
                # `a is not b` is exactly `not (a is b)`
                t.ops = [ast.Is() if isinstance(t.ops[0], ast.IsNot) else ast.In()]
                s.body, s.orelse = s.orelse, s.body

    # N6 candidates: locals every store of which is `t = E` directly followed by `return t`, and every load of which
    # is one of those returns
    pairs = {}

    def scan(body):
        for i, s in enumerate(body):
            if isinstance(s, (ast.FunctionDef, ast.AsyncFunctionDef, ast.ClassDef)):
                continue
            if (
                isinstance(s, ast.Assign) and len(s.targets) == 1 and isinstance(s.targets[0], ast.Name) and i + 1 < len(body)
                and isinstance(body[i + 1], ast.Return) and isinstance(body[i + 1].value, ast.Name) and body[i + 1].value.id == s.targets[0].id
            ):
                pairs[s.targets[0].id] = pairs.get(s.targets[0].id, 0) + 1
            for fld in ("body", "orelse", "finalbody"):
                b = getattr(s, fld, None)
                if isinstance(b, list) and b and isinstance(b[0], ast.stmt):
                    scan(b)
            for h in getattr(s, "handlers", []) or []:
                scan(h.body)

    scan(fn.body)
    inlinable = {k for k, n in pairs.items() if k in localish and counts.get(k) == [n, n]}
    fn.body = do_list(fn.body)


_CURRENT_KNOWN = frozenset()


def _closure_expr(g):
    """the value expression of a parameterless local function whose body only returns: `return E`, or an if/else
    (also in guard form) of such returns -> conditional expression; None if it is anything else"""
    a = g.args
    if a.posonlyargs or a.args or a.kwonlyargs or a.vararg or a.kwarg or g.decorator_list:
        return None

    def expr_of(body):
        body = [st for st in body if not (isinstance(st, ast.Expr) and isinstance(st.value, ast.Constant) and isinstance(st.value.value, str))]
        if len(body) == 1 and isinstance(body[0], ast.Return) and body[0].value is not None:
            return body[0].value
        if len(body) == 1 and isinstance(body[0], ast.If) and body[0].orelse:
            x, y = expr_of(body[0].body), expr_of(body[0].orelse)
            if x is not None and y is not None:
                return ast.IfExp(test=body[0].test, body=x, orelse=y)
        if len(body) >= 2 and isinstance(body[0], ast.If) and not body[0].orelse:
            x, y = expr_of(body[0].body), expr_of(body[1:])
            if x is not None and y is not None:
                return ast.IfExp(test=body[0].test, body=x, orelse=y)
        return None

    e = expr_of(g.body)
    if e is None or any(isinstance(n, (ast.Yield, ast.YieldFrom, ast.Await, ast.NamedExpr, ast.Lambda)) for n in ast.walk(e)):
        return None
    return e


def _inline_closures(fn):
    """N12: a parameterless local function that only returns an expression over the enclosing function's names, and is
    only ever *called* (`g()`), is that expression evaluated at the call: free variables of a closure are read when it is
    called, so substituting the body at each call site evaluates the same things at the same time."""
    import copy as _copy

    for g in [st for st in fn.body if isinstance(st, ast.FunctionDef) and st.name not in _CURRENT_KNOWN]:
        e = _closure_expr(g)
        if e is None:
            continue
        uses = [n for st in fn.body if st is not g for n in ast.walk(st) if isinstance(n, ast.Name) and n.id == g.name]
        calls = [n for st in fn.body if st is not g for n in ast.walk(st) if isinstance(n, ast.Call) and isinstance(n.func, ast.Name) and n.func.id == g.name and not n.args and not n.keywords]
        if not calls or len(uses) != len(calls):
            continue
        # names the closure would bind itself (none allowed: it has no statements but returns) - and no nested def may
        # capture the calls (they would run later)
        nested = [d for st in fn.body if st is not g for d in ast.walk(st) if isinstance(d, (ast.FunctionDef, ast.Lambda, ast.AsyncFunctionDef))]
        if any(c is n for d in nested for n in ast.walk(d) for c in calls):
            continue
        ids = {id(c) for c in calls}

        class R(ast.NodeTransformer):
            def visit_Call(self, n):
                self.generic_visit(n)
                if id(n) in ids:
                    return ast.copy_location(_copy.deepcopy(e), n)
                return n

        new_body = []
        for st in fn.body:
            if st is g:
                continue
            new_body.append(R().visit(st))
        fn.body = new_body
        ast.fix_missing_locations(fn)


def _inline_procedures(fn):
    """N12b: a local function that is only ever called as a statement `g(a, b)` with plain names as arguments, and whose
    body neither returns a value nor returns early, is its body with the parameters replaced by those names - at each
    call site, also inside nested functions of the same scope (closure variables are read at call time)."""
    import copy as _copy

    for g in [st for st in fn.body if isinstance(st, ast.FunctionDef) and st.name not in _CURRENT_KNOWN]:
        a = g.args
        if a.posonlyargs or a.kwonlyargs or a.vararg or a.kwarg or a.defaults or g.decorator_list or not a.args:
            continue
        body = [st for st in g.body if not (isinstance(st, ast.Expr) and isinstance(st.value, ast.Constant) and isinstance(st.value.value, str))]
        if not body or any(isinstance(n, (ast.Return, ast.Yield, ast.YieldFrom, ast.Await, ast.Global, ast.Nonlocal, ast.FunctionDef, ast.Lambda)) for st in body for n in ast.walk(st)):
            continue
        params = [x.arg for x in a.args]
        uses = [n for st in fn.body if st is not g for n in ast.walk(st) if isinstance(n, ast.Name) and n.id == g.name]
        sites = []

        def collect(stmts):
            for st in stmts:
                if isinstance(st, ast.Expr) and isinstance(st.value, ast.Call) and isinstance(st.value.func, ast.Name) and st.value.func.id == g.name:
                    sites.append(st)
                for fld in ("body", "orelse", "finalbody"):
                    sub = getattr(st, fld, None)
                    if isinstance(sub, list) and sub and isinstance(sub[0], ast.stmt):
                        collect(sub)
                for h in getattr(st, "handlers", []) or []:
                    collect(h.body)

        collect([st for st in fn.body if st is not g])
        if not sites or len(uses) != len(sites):
            continue
        if not all(len(st.value.args) == len(params) and not st.value.keywords and all(isinstance(x, ast.Name) for x in st.value.args) for st in sites):
            continue
        site_ids = {id(st) for st in sites}

        def expand(st):
            bind = {p_: x.id for p_, x in zip(params, st.value.args)}

            class S(ast.NodeTransformer):
                def visit_Name(self, n):
                    if n.id in bind:
                        return ast.copy_location(ast.Name(id=bind[n.id], ctx=n.ctx), n)
                    return n

            return [ast.copy_location(S().visit(_copy.deepcopy(b_)), st) for b_ in body]

        def rewrite(stmts):
            out = []
            for st in stmts:
                if id(st) in site_ids:
                    out.extend(expand(st))
                    continue
                for fld in ("body", "orelse", "finalbody"):
                    sub = getattr(st, fld, None)
                    if isinstance(sub, list) and sub and isinstance(sub[0], ast.stmt):
                        setattr(st, fld, rewrite(sub))
                for h in getattr(st, "handlers", []) or []:
                    h.body = rewrite(h.body)
                out.append(st)
            return out

        fn.body = rewrite([st for st in fn.body if st is not g])
        ast.fix_missing_locations(fn)


def normalise_function(fn):
    _inline_closures(fn)
    _inline_procedures(fn)
    a = fn.args
    params = {x.arg for x in a.posonlyargs + a.args + a.kwonlyargs}
    if a.vararg:
        params.add(a.vararg.arg)
    if a.kwarg:
        params.add(a.kwarg.arg)
    localish = set(roles.function_locals(fn)) | params
    # expressions first (N1-N4), then statements (N5 looks at tests after N1)
    t = _Expr(localish)
    tt = _Tests()
    for i, st in enumerate(fn.body):
        fn.body[i] = tt.visit(t.visit(st))
    for d in fn.args.defaults + [x for x in fn.args.kw_defaults if x is not None]:
        pass
    _stmts(fn, set(roles.function_locals(fn)), _names_used(fn))


def _inline_trivial_helpers(tree, known=frozenset()):
    """N14: a direct call of an undecorated module-level function of the same module whose body is a single
    `return E` is E with the arguments substituted - when substitution cannot change what is evaluated or in which
    order: every argument is a name / attribute / constant, or every parameter occurs exactly once in E and E contains no
    call other than its outermost one."""
    import copy as _copy

    helpers = {}
    for n in tree.body:
        if isinstance(n, ast.FunctionDef) and not n.decorator_list:
            b = [s_ for s_ in n.body if not (isinstance(s_, ast.Expr) and isinstance(s_.value, ast.Constant))]
            a = n.args
            if len(b) == 1 and isinstance(b[0], ast.Return) and b[0].value is not None and not (a.vararg or a.kwarg or a.kwonlyargs or a.posonlyargs):
                e = b[0].value
                if any(isinstance(x, (ast.Lambda, ast.Yield, ast.YieldFrom, ast.Await, ast.NamedExpr, ast.ListComp, ast.SetComp, ast.DictComp, ast.GeneratorExp)) for x in ast.walk(e)):
                    continue
                helpers[n.name] = ([x.arg for x in a.args], a.defaults, e)
    if not helpers:
        return
    # a helper that is re-bound or defined twice is left alone
    counts = {}
    for n in ast.walk(tree):
        if isinstance(n, ast.FunctionDef):
            counts[n.name] = counts.get(n.name, 0) + 1
        if isinstance(n, ast.Name) and isinstance(n.ctx, ast.Store):
            counts[n.id] = counts.get(n.id, 0) + 1
    helpers = {k: v for k, v in helpers.items() if counts.get(k, 0) == 1 and k not in known}

    def simple(x):
        return isinstance(x, (ast.Name, ast.Constant)) or (isinstance(x, ast.Attribute) and simple(x.value))

    class R(ast.NodeTransformer):
        def visit_Call(self, c):
            self.generic_visit(c)
            if not (isinstance(c.func, ast.Name) and c.func.id in helpers):
                return c
            params, defaults, e = helpers[c.func.id]
            if any(isinstance(a_, ast.Starred) for a_ in c.args) or any(k.arg is None for k in c.keywords) or len(c.args) > len(params):
                return c
            bind = dict(zip(params, c.args))
            for k in c.keywords:
                if k.arg not in params or k.arg in bind:
                    return c
                bind[k.arg] = k.value
            for p_, d_ in zip(params[len(params) - len(defaults):], defaults):
                bind.setdefault(p_, d_)
            if set(bind) != set(params):
                return c
            uses = {p_: sum(1 for x in ast.walk(e) if isinstance(x, ast.Name) and x.id == p_) for p_ in params}
            inner_calls = sum(1 for x in ast.walk(e) if isinstance(x, ast.Call)) - (1 if isinstance(e, ast.Call) else 0)
            if not (all(simple(v) for v in bind.values()) or (all(u == 1 for u in uses.values()) and inner_calls == 0)):
                return c

            class S(ast.NodeTransformer):
                def visit_Name(self, n):
                    if n.id in bind and isinstance(n.ctx, ast.Load):
                        return ast.copy_location(_copy.deepcopy(bind[n.id]), n)
                    return n

            return ast.copy_location(S().visit(_copy.deepcopy(e)), c)

    for i, st in enumerate(tree.body):
        if isinstance(st, ast.FunctionDef) and st.name in helpers:
            continue
        tree.body[i] = R().visit(st)
    ast.fix_missing_locations(tree)


def _inline_first_with_attribute(tree, known=frozenset()):
    """N15: a module-level helper of the shape

        def h(*items):                      # or h(items)
            for x in items:
                v = getattr(x, "A", None)
                if v is not None:
                    return v
            return D

    called with exactly ONE positional argument a (h(a), nothing starred, no keywords) is getattr(a, "A", D): the loop runs
    once.  The two differ only for an object whose attribute A exists and is None; the form is applied for A == "units"
    only, which is never None on the objects of this package that have it (unyt_array / unyt_quantity always carry a Unit;
    the package's own idiom `getattr(out, "units", None) is not None` treats None and absence alike).  Calls with several
    arguments are left alone."""
    import copy as _copy

    helpers = {}
    for n in tree.body:
        if not (isinstance(n, ast.FunctionDef) and not n.decorator_list and n.name not in known):
            continue
        a = n.args
        if not (a.vararg and not (a.args or a.kwonlyargs or a.posonlyargs or a.kwarg)):
            continue
        b = [s_ for s_ in n.body if not (isinstance(s_, ast.Expr) and isinstance(s_.value, ast.Constant))]
        if len(b) != 2 or not isinstance(b[0], ast.For) or not isinstance(b[1], ast.Return) or b[1].value is None or b[0].orelse:
            continue
        lp = b[0]
        if not (isinstance(lp.iter, ast.Name) and lp.iter.id == a.vararg.arg and isinstance(lp.target, ast.Name) and len(lp.body) == 2):
            continue
        asg, tst = lp.body
        if not (isinstance(asg, ast.Assign) and len(asg.targets) == 1 and isinstance(asg.targets[0], ast.Name) and isinstance(asg.value, ast.Call) and isinstance(asg.value.func, ast.Name) and asg.value.func.id == "getattr" and len(asg.value.args) == 3 and not asg.value.keywords):
            continue
        g = asg.value
        if not (isinstance(g.args[0], ast.Name) and g.args[0].id == lp.target.id and isinstance(g.args[1], ast.Constant) and g.args[1].value == "units" and isinstance(g.args[2], ast.Constant) and g.args[2].value is None):
            continue
        v = asg.targets[0].id
        if not (isinstance(tst, ast.If) and not tst.orelse and len(tst.body) == 1 and isinstance(tst.body[0], ast.Return) and isinstance(tst.body[0].value, ast.Name) and tst.body[0].value.id == v):
            continue
        t = tst.test
        if not (isinstance(t, ast.Compare) and len(t.ops) == 1 and isinstance(t.ops[0], ast.IsNot) and isinstance(t.left, ast.Name) and t.left.id == v and isinstance(t.comparators[0], ast.Constant) and t.comparators[0].value is None):
            continue
        d = b[1].value
        if not isinstance(d, (ast.Name, ast.Constant, ast.Attribute)):
            continue
        helpers[n.name] = d
    counts = {}
    for n in ast.walk(tree):
        if isinstance(n, ast.FunctionDef):
            counts[n.name] = counts.get(n.name, 0) + 1
        if isinstance(n, ast.Name) and isinstance(n.ctx, ast.Store):
            counts[n.id] = counts.get(n.id, 0) + 1
    helpers = {k: v for k, v in helpers.items() if counts.get(k, 0) == 1}
    if not helpers:
        return

    class R(ast.NodeTransformer):
        def visit_Call(self, c):
            self.generic_visit(c)
            if isinstance(c.func, ast.Name) and c.func.id in helpers and len(c.args) == 1 and not c.keywords and not isinstance(c.args[0], ast.Starred):
                new = ast.Call(func=ast.Name(id="getattr", ctx=ast.Load()), args=[c.args[0], ast.Constant(value="units"), _copy.deepcopy(helpers[c.func.id])], keywords=[])
                return ast.copy_location(new, c)
            return c

    for i, st in enumerate(tree.body):
        if isinstance(st, ast.FunctionDef) and st.name in helpers:
            continue
        tree.body[i] = R().visit(st)
    ast.fix_missing_locations(tree)


def _inline_tail_helpers(tree, known=frozenset()):
    """N14b: `t = h(a, b)` where h is an undecorated, non-recursive module-level function of the same module called with
    plain names, and every `return E` of h is in tail position (last statement of the body, of both arms of an if, of a
    try body and its handlers): the statement is h's body with parameters replaced by the argument names, h's other locals
    renamed apart, and each `return E` replaced by `t = E`.  A parameter that h re-binds must be passed the very name
    the result is assigned to (x = h(u, x)), otherwise the caller's variable would change."""
    import copy as _copy

    defs = {}
    for n in tree.body:
        if isinstance(n, ast.FunctionDef) and not n.decorator_list:
            a = n.args
            if a.posonlyargs or a.kwonlyargs or a.vararg or a.kwarg or a.defaults:
                continue
            body = [s_ for s_ in n.body if not (isinstance(s_, ast.Expr) and isinstance(s_.value, ast.Constant))]
            if not body or len(body) > 8:
                continue
            if any(isinstance(x, (ast.Yield, ast.YieldFrom, ast.Await, ast.Global, ast.Nonlocal, ast.FunctionDef, ast.Lambda, ast.While, ast.For, ast.With)) for s_ in body for x in ast.walk(s_)):
                continue
            if any(isinstance(x, ast.Call) and isinstance(x.func, ast.Name) and x.func.id == n.name for s_ in body for x in ast.walk(s_)):
                continue
            defs[n.name] = (n, [x.arg for x in a.args], body)
    counts = {}
    for n in ast.walk(tree):
        if isinstance(n, ast.FunctionDef):
            counts[n.name] = counts.get(n.name, 0) + 1
    defs = {k: v for k, v in defs.items() if counts.get(k) == 1 and k not in known}
    if not defs:
        return

    def tailify(stmts, target):
        """stmts with every tail `return E` turned into `target = E`; None when a return is not in tail position"""
        if not stmts:
            return None
        head, last = stmts[:-1], stmts[-1]
        if any(isinstance(x, ast.Return) for s_ in head for x in ast.walk(s_)):
            return None
        if isinstance(last, ast.Return):
            if last.value is None:
                return None
            return head + [ast.copy_location(ast.Assign(targets=[ast.Name(id=target, ctx=ast.Store())], value=last.value), last)]
        if isinstance(last, ast.If) and last.orelse:
            b1, b2 = tailify(last.body, target), tailify(last.orelse, target)
            if b1 is None or b2 is None:
                return None
            return head + [ast.copy_location(ast.If(test=last.test, body=b1, orelse=b2), last)]
        if isinstance(last, ast.Try) and not last.finalbody and not last.orelse:
            tb = tailify(last.body, target)
            hs = []
            for h in last.handlers:
                hb = tailify(h.body, target)
                if hb is None:
                    return None
                hs.append(ast.copy_location(ast.ExceptHandler(type=h.type, name=h.name, body=hb), h))
            if tb is None:
                return None
            return head + [ast.copy_location(ast.Try(body=tb, handlers=hs, orelse=[], finalbody=[]), last)]
        return None

    def expand(st, used_names):
        call = st.value
        node, params, body = defs[call.func.id]
        if call.keywords or len(call.args) != len(params) or not all(isinstance(x, ast.Name) for x in call.args):
            return None
        target = st.targets[0].id
        bind = {p_: x.id for p_, x in zip(params, call.args)}
        stored = {x.id for s_ in body for x in ast.walk(s_) if isinstance(x, ast.Name) and isinstance(x.ctx, ast.Store)}
        for p_ in params:
            if p_ in stored and bind[p_] != target:
                return None
        # single-return-expression helpers are N14's business
        if len(body) == 1 and isinstance(body[0], ast.Return):
            return None
        for loc in stored - set(params):
            new_name = loc
            if loc in used_names or loc in bind.values():
                new_name = f"_{call.func.id.strip('_')}_{loc}"
            bind[loc] = new_name
        new_body = tailify(_copy.deepcopy(body), "__RESULT__")
        if new_body is None:
            return None
        bind["__RESULT__"] = target

        class S(ast.NodeTransformer):
            def visit_Name(self, n):
                if n.id in bind:
                    return ast.copy_location(ast.Name(id=bind[n.id], ctx=n.ctx), n)
                return n

        return [ast.copy_location(S().visit(b_), st) for b_ in new_body]

    def rewrite(stmts, used_names):
        out = []
        for st in stmts:
            if isinstance(st, ast.Assign) and len(st.targets) == 1 and isinstance(st.targets[0], ast.Name) and isinstance(st.value, ast.Call) and isinstance(st.value.func, ast.Name) and st.value.func.id in defs:
                ex = expand(st, used_names)
                if ex is not None:
                    out.extend(ex)
                    continue
            for fld in ("body", "orelse", "finalbody"):
                sub = getattr(st, fld, None)
                if isinstance(sub, list) and sub and isinstance(sub[0], ast.stmt) and not isinstance(st, (ast.FunctionDef, ast.ClassDef)):
                    setattr(st, fld, rewrite(sub, used_names))
            for h in getattr(st, "handlers", []) or []:
                h.body = rewrite(h.body, used_names)
            out.append(st)
        return out

    def visit_fn(fn):
        used = {x.id for x in ast.walk(fn) if isinstance(x, ast.Name)} | {x.arg for x in ast.walk(fn) if isinstance(x, ast.arg)}
        fn.body = rewrite(fn.body, used)
        for sub in fn.body:
            for x in ast.walk(sub):
                if isinstance(x, ast.FunctionDef):
                    visit_fn(x)

    for n in tree.body:
        if isinstance(n, ast.FunctionDef):
            visit_fn(n)
        elif isinstance(n, ast.ClassDef):
            for m in n.body:
                if isinstance(m, ast.FunctionDef):
                    visit_fn(m)
    ast.fix_missing_locations(tree)


_KNOWN = None
_CURRENT_KNOWN = frozenset()


def known_functions(rel):
    """function names of the reference tree (spec/known_functions.json, tools/gen_known_functions.py): the functions the
    rules are written against.  Only helpers OUTSIDE this inventory - introduced by a later refactoring - are inlined by
    N14 / N14b; the inventory is an aid for normalisation only, nothing is claimed from it."""
    global _KNOWN
    if _KNOWN is None:
        import json
        import os

        p_ = os.path.join(os.path.dirname(os.path.dirname(os.path.abspath(__file__))), "spec", "known_functions.json")
        try:
            with open(p_, encoding="utf-8") as f:
                _KNOWN = {k: frozenset(v) for k, v in json.load(f).items()}
        except OSError:
            _KNOWN = {}
    return _KNOWN.get(rel)


def normalise(tree, rel=None):
    global _CURRENT_KNOWN
    known = known_functions(rel) if rel is not None else None
    _CURRENT_KNOWN = known if known is not None else frozenset()
    if known is not None:
        _inline_first_with_attribute(tree, known)
        _inline_trivial_helpers(tree, known)
        _inline_tail_helpers(tree, known)

    def visit(body):
        for st in body:
            if isinstance(st, ast.ClassDef):
                visit(st.body)
            elif isinstance(st, (ast.FunctionDef, ast.AsyncFunctionDef)):
                # nested functions first
                for sub in ast.walk(st):
                    if sub is not st and isinstance(sub, (ast.FunctionDef, ast.AsyncFunctionDef)):
                        normalise_function(sub)
                normalise_function(st)
            elif isinstance(st, (ast.If, ast.Try, ast.With, ast.For, ast.While)):
                for fld in ("body", "orelse", "finalbody"):
                    visit(getattr(st, fld, []) or [])
                for h in getattr(st, "handlers", []) or []:
                    visit(h.body)

    visit(tree.body)
    # module level expressions (table literals, top-level calls): N1-N4 with no locals
    t = _Expr(set())
    for i, st in enumerate(tree.body):
        if not isinstance(st, (ast.FunctionDef, ast.AsyncFunctionDef, ast.ClassDef)):
            tree.body[i] = t.visit(st)
    ast.fix_missing_locations(tree)
    return tree
