"""Canonical forms that make rules indifferent to behaviour-preserving rewrites.

canon_block(stmts)   a statement list as canonical texts: locals that only name a *pure* expression are substituted
                     into their uses (as long as nothing they read has been written in between), the remaining
                     block-local names are renamed _L0, _L1, ... in order of first binding, keyword arguments are
                     sorted, list/tuple literals used only for membership are unified, `.v` == `.value`.
canon_expr(e, fn)    the same for one expression of a function (pure single-assignment locals expanded).
canon_fact(t, truth) orientation-free atomic condition:  `x is not None`/False == `x is None`/True, etc.
split_ifexp(stmts)   rewrites `return A if C else B` / `x = A if C else B` into if-statements so that the path
                     enumerator sees the branch.
"""

from __future__ import annotations

import ast
import copy

from .core import AnalysisError, norm

PURE_CALLS = {
    "str", "len", "isinstance", "issubclass", "type", "getattr", "hasattr", "repr", "int", "float", "bool", "tuple",
    "list", "sorted", "max", "min", "abs", "np.dtype", "numpy.dtype", "frozenset", "set", "dict", "zip", "range", "enumerate",
    # NumPy functions that only read their arguments
    "np.count_nonzero", "np.any", "np.all", "np.abs", "np.shares_memory", "np.ptp", "np.isscalar", "np.ndim", "np.shape", "np.size",
    "np.asarray", "np.asanyarray", "np.isnan", "np.isfinite", "np.array_equal", "np.prod", "np.result_type", "np.iscomplexobj",
    # package helpers that only read their arguments (C13-R2 checks that _split_prefix does not write its table)
    "_split_prefix",
}


def is_pure(e) -> bool:
    if isinstance(e, (ast.Constant, ast.Name)):
        return True
    if isinstance(e, ast.Attribute):
        return is_pure(e.value)
    if isinstance(e, ast.Subscript):
        return is_pure(e.value) and is_pure(e.slice)
    if isinstance(e, ast.Slice):
        return all(x is None or is_pure(x) for x in (e.lower, e.upper, e.step))
    if isinstance(e, (ast.Tuple, ast.List, ast.Set)):
        return all(is_pure(x) for x in e.elts)
    if isinstance(e, ast.BinOp):
        return is_pure(e.left) and is_pure(e.right)
    if isinstance(e, ast.UnaryOp):
        return is_pure(e.operand)
    if isinstance(e, ast.BoolOp):
        return all(is_pure(x) for x in e.values)
    if isinstance(e, ast.Compare):
        return is_pure(e.left) and all(is_pure(x) for x in e.comparators)
    if isinstance(e, ast.IfExp):
        return is_pure(e.test) and is_pure(e.body) and is_pure(e.orelse)
    if isinstance(e, ast.Call):
        args_pure = all(is_pure(a) for a in e.args) and all(is_pure(k.value) for k in e.keywords)
        if isinstance(e.func, ast.Attribute) and e.func.attr in ("get", "startswith", "endswith", "keys", "values", "items") and is_pure(e.func.value):
            # reading a mapping / testing a string
            return args_pure
        return norm(e.func) in PURE_CALLS and args_pure
    if isinstance(e, ast.JoinedStr):
        return True
    if isinstance(e, ast.Starred):
        return is_pure(e.value)
    if isinstance(e, (ast.ListComp, ast.SetComp, ast.GeneratorExp)):
        return is_pure(e.elt) and all(is_pure(g.iter) and all(is_pure(c) for c in g.ifs) for g in e.generators)
    if isinstance(e, ast.DictComp):
        return is_pure(e.key) and is_pure(e.value) and all(is_pure(g.iter) and all(is_pure(c) for c in g.ifs) for g in e.generators)
    if isinstance(e, ast.Dict):
        return all(k is None or is_pure(k) for k in e.keys) and all(is_pure(v) for v in e.values)
    return False


def paths_read(e) -> set[str]:
    """attribute / name paths an expression reads ("out.dtype.itemsize" -> {"out", "out.dtype", "out.dtype.itemsize"})"""
    out = set()
    for n in ast.walk(e):
        if isinstance(n, (ast.Name, ast.Attribute)):
            t = norm(n)
            out.add(t)
    return out


def paths_written(st) -> set[str]:
    out = set()
    for n in ast.walk(st):
        tg = []
        if isinstance(n, ast.Assign):
            tg = n.targets
        elif isinstance(n, (ast.AugAssign, ast.AnnAssign)):
            tg = [n.target]
        elif isinstance(n, ast.Delete):
            tg = n.targets
        elif isinstance(n, ast.For):
            tg = [n.target]
        for t in tg:
            for el in ast.walk(t):
                if isinstance(el, (ast.Name, ast.Attribute)) and isinstance(getattr(el, "ctx", None), (ast.Store, ast.Del)):
                    out.add(norm(el))
                if isinstance(el, ast.Subscript) and isinstance(el.ctx, (ast.Store, ast.Del)):
                    out.add(norm(el.value))
        if isinstance(n, ast.Call):
            for k in n.keywords:
                if k.arg == "out":
                    out.add(norm(k.value))
            if isinstance(n.func, ast.Attribute) and n.func.attr in ("append", "extend", "update", "pop", "clear", "sort", "fill", "resize", "setdefault", "add", "remove", "insert"):
                out.add(norm(n.func.value))
            if norm(n.func) in ("np.copyto",) and n.args:
                out.add(norm(n.args[0]))
    return out


SIGNATURES = {}  # simple name of a module-level package function -> positional parameter names (unique names only)


def register_signatures(repo):
    """called when a Repo is built: lets canonicalisation turn `f(a, lut=b)` into `f(a, b)` for package helpers"""
    sigs, dup = {}, set()
    for mod in repo.mods(only_anchor=False):
        for q, fns in mod.funcs.items():
            if "." in q:
                continue
            for f in fns:
                a = f.node.args
                if a.vararg or a.kwonlyargs or a.posonlyargs:
                    dup.add(q)
                    continue  # (a trailing **kwargs does not affect how named parameters are bound)
                ps = tuple(x.arg for x in a.args)
                if q in sigs and sigs[q] != ps:
                    dup.add(q)
                sigs[q] = ps
    SIGNATURES.clear()
    SIGNATURES.update({k: v for k, v in sigs.items() if k not in dup})


class _Canon(ast.NodeTransformer):
    """expression-level canonicalisation (no environment)"""

    def visit_Compare(self, n):
        self.generic_visit(n)
        n.comparators = [ast.Tuple(elts=c.elts, ctx=ast.Load()) if isinstance(c, ast.List) and isinstance(op, (ast.In, ast.NotIn)) else c for op, c in zip(n.ops, n.comparators)]
        return n

    def visit_Call(self, n):
        self.generic_visit(n)
        named = [k for k in n.keywords if k.arg is not None]
        star = [k for k in n.keywords if k.arg is None]
        # keyword arguments of a known package helper that continue the positional ones become positional
        if isinstance(n.func, ast.Name) and n.func.id in SIGNATURES and not any(isinstance(a, ast.Starred) for a in n.args):
            formal = SIGNATURES[n.func.id]
            bykw = {k.arg: k for k in named}
            i = len(n.args)
            while i < len(formal) and formal[i] in bykw:
                n.args.append(bykw.pop(formal[i]).value)
                i += 1
            named = list(bykw.values())
        n.keywords = sorted(named, key=lambda k: k.arg) + star
        return n

    def visit_Attribute(self, n):
        self.generic_visit(n)
        if n.attr == "v":
            n.attr = "value"
        elif n.attr == "d":
            n.attr = "ndview"
        return n

    def visit_NamedExpr(self, n):
        # (x := e) reads as e (the binding is recorded separately by the path summariser)
        self.generic_visit(n)
        return n.value

    def visit_Subscript(self, n):
        self.generic_visit(n)
        # (a, b)[0] -> a
        if isinstance(n.value, (ast.Tuple, ast.List)) and isinstance(n.slice, ast.Constant) and isinstance(n.slice.value, int) and not any(isinstance(e, ast.Starred) for e in n.value.elts):
            k = n.slice.value
            if -len(n.value.elts) <= k < len(n.value.elts):
                return n.value.elts[k]
        return n


def _rename_comprehension_vars(tree):
    """bound variables of comprehensions / generator expressions / lambdas get position-based names; numbering
    restarts at every outermost comprehension, so the names do not depend on what else the function contains"""
    COMP = (ast.ListComp, ast.SetComp, ast.GeneratorExp, ast.DictComp, ast.Lambda)

    def rename(node, mapping):
        for n in ast.walk(node):
            if isinstance(n, ast.Name) and n.id in mapping:
                n.id = mapping[n.id]
            elif isinstance(n, ast.arg) and n.arg in mapping:
                n.arg = mapping[n.arg]

    def process(node, k):
        mapping = {}
        if isinstance(node, ast.Lambda):
            for a in node.args.args:
                mapping[a.arg] = f"_c{k}"
                k += 1
        else:
            for g in node.generators:
                for t in ast.walk(g.target):
                    if isinstance(t, ast.Name) and t.id not in mapping:
                        mapping[t.id] = f"_c{k}"
                        k += 1
        mapping = {a: b for a, b in mapping.items() if a != b}
        # two-step rename avoids clashes when the code already uses _c names
        tmp = {a: f"\0{b}" for a, b in mapping.items()}
        rename(node, tmp)
        rename(node, {v: v[1:] for v in tmp.values()})
        for ch in ast.iter_child_nodes(node):
            descend(ch, k)

    def descend(node, k):
        if isinstance(node, COMP):
            process(node, k)
        else:
            for ch in ast.iter_child_nodes(node):
                descend(ch, k)

    descend(tree, 0)
    return tree


def canon_node(e):
    return _rename_comprehension_vars(_Canon().visit(copy.deepcopy(e)))


def cnorm(e) -> str:
    """canonical text of a node without any environment"""
    return norm(canon_node(e))


class _Subst(ast.NodeTransformer):
    def __init__(self, env, rename):
        self.env, self.rename = env, rename

    def visit_Name(self, n):
        if isinstance(n.ctx, ast.Load) and n.id in self.env:
            return copy.deepcopy(self.env[n.id])
        if n.id in self.rename:
            return ast.Name(id=self.rename[n.id], ctx=n.ctx)
        return n


def _locals_of(stmts, keep):
    names = []
    for st in stmts:
        for n in ast.walk(st):
            if isinstance(n, ast.Name) and isinstance(n.ctx, ast.Store) and n.id not in keep and n.id not in names:
                names.append(n.id)
    return names


def canon_block(stmts, keep=(), expand=True) -> list[str]:
    """see module docstring.  `keep`: names that are not block-local (parameters, names read by the caller of the
    block) - they are neither substituted nor renamed."""
    keep = set(keep)
    local = _locals_of(stmts, keep)
    # how often is each local bound?
    nbind = {}
    for st in stmts:
        for n in ast.walk(st):
            if isinstance(n, ast.Name) and isinstance(n.ctx, ast.Store):
                nbind[n.id] = nbind.get(n.id, 0) + 1
    env = {}
    rename = {}
    out = []

    def fresh(name):
        if name not in rename:
            rename[name] = f"_L{len(rename)}"
        return rename[name]

    def emit(st):
        t = _Subst(env, rename).visit(copy.deepcopy(st))
        out.append(norm(canon_node(t)))

    def used_later(name, rest):
        return any(isinstance(n, ast.Name) and n.id == name and isinstance(n.ctx, ast.Load) for st in rest for n in ast.walk(st))

    def walk(body):
        for i, st in enumerate(body):
            if (
                expand
                and isinstance(st, ast.Assign)
                and len(st.targets) == 1
                and isinstance(st.targets[0], ast.Name)
                and st.targets[0].id in local
                and nbind.get(st.targets[0].id) == 1
                and is_pure(st.value)
            ):
                env[st.targets[0].id] = _Subst(env, rename).visit(copy.deepcopy(st.value))
                continue
            # anything this statement writes ends the validity of the pure definitions that read it.  Uses inside the
            # statement itself are still evaluated before the write; a local that is needed afterwards is materialised
            # as an ordinary (renamed) variable just before the statement
            w = paths_written(st)
            stale = [k for k in env if paths_read(env[k]) & w] if w else []
            for k in stale:
                if used_later(k, body[i + 1 :]):
                    val = env.pop(k)
                    out.append(f"{fresh(k)} = {norm(canon_node(val))}")
            for n in ast.walk(st):
                if isinstance(n, ast.Name) and isinstance(n.ctx, ast.Store) and n.id in local:
                    fresh(n.id)
            emit(st)
            for k in stale:
                env.pop(k, None)

    walk(list(stmts))
    return out


def fn_pure_env(fn) -> dict:
    """locals of a function that are bound exactly once, to a pure expression"""
    env = {}
    counts, defs = {}, {}
    params = set(fn.params) | ({fn.vararg} if fn.vararg else set()) | ({fn.kwarg} if fn.kwarg else set())
    for n in ast.walk(fn.node):
        if isinstance(n, ast.Name) and isinstance(n.ctx, ast.Store):
            counts[n.id] = counts.get(n.id, 0) + 1
        if isinstance(n, ast.Assign) and len(n.targets) == 1 and isinstance(n.targets[0], ast.Name):
            defs[n.targets[0].id] = n.value
    for k, v in defs.items():
        if counts.get(k) == 1 and k not in params and is_pure(v):
            env[k] = v
    return env


def canon_expr(e, fn=None, extra_env=None) -> str:
    """canonical text of one expression; with `fn`, locals assigned exactly once to a pure expression are expanded"""
    env = {}
    if fn is not None:
        env = fn_pure_env(fn)
    if extra_env:
        env.update(extra_env)
    cur = copy.deepcopy(e)
    for _ in range(6):
        new = _Subst(env, {}).visit(copy.deepcopy(cur))
        if norm(new) == norm(cur):
            break
        cur = new
    return norm(canon_node(cur))


FLIP = {ast.IsNot: ast.Is, ast.NotEq: ast.Eq, ast.NotIn: ast.In}


def canon_fact(test, truth: bool, fn=None):
    """(canonical text, truth) of an atomic condition node"""
    t = test
    if isinstance(t, ast.UnaryOp) and isinstance(t.op, ast.Not):
        return canon_fact(t.operand, not truth, fn)
    if isinstance(t, ast.Compare) and len(t.ops) == 1 and type(t.ops[0]) in FLIP:
        t2 = copy.deepcopy(t)
        t2.ops = [FLIP[type(t.ops[0])]()]
        return canon_expr(t2, fn), (not truth)
    return canon_expr(t, fn), truth


def canon_facts(path, fn=None) -> set:
    """canonical atomic facts of a path from flow.enum_paths"""
    from .flow import decompose

    out = set()
    for ev in path:
        if ev[0] == "cond":
            tmp = []
            decompose(ev[1], ev[2], tmp)
            for _, tr, node in tmp:
                out.add(canon_fact(node, tr, fn))
    return out


def split_ifexp(stmts):
    """`return A if C else B` -> if C: return A else: return B   (same for single-target assignments)"""
    out = []
    for st in stmts:
        if any(isinstance(getattr(st, fld, None), list) and getattr(st, fld) and isinstance(getattr(st, fld)[0], ast.stmt) for fld in ("body", "orelse", "finalbody")):
            st = copy.copy(st)  # compound statement: rebuilt; simple statements keep their identity
        for fld in ("body", "orelse", "finalbody"):
            if isinstance(getattr(st, fld, None), list) and getattr(st, fld) and isinstance(getattr(st, fld)[0], ast.stmt):
                setattr(st, fld, split_ifexp(getattr(st, fld)))
        if isinstance(st, ast.Return) and isinstance(st.value, ast.IfExp):
            v = st.value
            new = ast.If(test=v.test, body=split_ifexp([ast.Return(value=v.body)]), orelse=split_ifexp([ast.Return(value=v.orelse)]))
            ast.copy_location(new, st)
            ast.fix_missing_locations(new)
            out.append(new)
        elif isinstance(st, ast.Assign) and isinstance(st.value, ast.IfExp):
            v = st.value
            new = ast.If(test=v.test, body=[ast.Assign(targets=st.targets, value=v.body)], orelse=[ast.Assign(targets=st.targets, value=v.orelse)])
            ast.copy_location(new, st)
            ast.fix_missing_locations(new)
            out.append(new)
        else:
            out.append(st)
    return out


def atomise(stmts):
    """`if A and B: X else: Y`  ->  `if A: (if B: X else: Y) else: Y`;  `if A or B` and `if not A` likewise, so that
    every branch condition on a path is atomic (Y is duplicated, which is harmless for path enumeration)."""
    out = []
    for st in stmts:
        if any(isinstance(getattr(st, fld, None), list) and getattr(st, fld) and isinstance(getattr(st, fld)[0], ast.stmt) for fld in ("body", "orelse", "finalbody")):
            st = copy.copy(st)
        for fld in ("body", "orelse", "finalbody"):
            v = getattr(st, fld, None)
            if isinstance(v, list) and v and isinstance(v[0], ast.stmt):
                setattr(st, fld, atomise(v))
        if isinstance(st, ast.If):
            out.append(_atom_if(st.test, st.body, st.orelse, st))
        else:
            out.append(st)
    return out


def _atom_if(test, body, orelse, loc):
    if isinstance(test, ast.UnaryOp) and isinstance(test.op, ast.Not):
        return _atom_if(test.operand, orelse or [ast.copy_location(ast.Pass(), loc)], body, loc)
    if isinstance(test, ast.BoolOp) and len(test.values) >= 2:
        first = test.values[0]
        rest = test.values[1] if len(test.values) == 2 else ast.BoolOp(op=test.op, values=test.values[1:])
        if isinstance(test.op, ast.And):
            inner = _atom_if(rest, body, orelse, loc)
            return _atom_if(first, [inner], orelse, loc)
        inner = _atom_if(rest, body, orelse, loc)
        return _atom_if(first, body, [inner], loc)
    n = ast.If(test=test, body=list(body), orelse=list(orelse))
    ast.copy_location(n, loc)
    ast.fix_missing_locations(n)
    return n


# ---------------------------------------------------------------------------
# path summaries: what a small function does on each path, independent of how locals are named or staged


class PathSummary:
    def __init__(self, facts, kind, value, effects, path):
        self.facts = facts  # set of (canonical condition text, truth)
        self.kind = kind  # "return" | "raise" | "fall"
        self.value = value  # canonical text of the returned expression / raised exception call (locals expanded)
        self.effects = effects  # canonical texts of the statements that are not pure local bindings
        self.path = path

    def has(self, text, truth=True):
        return (text, truth) in self.facts

    @property
    def feasible(self):
        """False when the path's conditions contradict each other (same atomic condition both true and false)"""
        return not any((t, not tr) in self.facts for t, tr in self.facts)

    def __repr__(self):
        return f"<{sorted(self.facts)} -> {self.kind} {self.value}>"


_INLINE_CACHE = {}


def _inlinable(mod, name):
    """a module-level helper that is one straight path of pure bindings ending in `return <expr>` (no effects, no
    branches): (parameter names, returned expression node) - else None"""
    key = (id(mod), name)
    if key in _INLINE_CACHE:
        return _INLINE_CACHE[key]
    _INLINE_CACHE[key] = None
    fns = mod.funcs.get(name)
    if not fns or len(fns) != 1 or fns[0].node.decorator_list:
        return None
    f = fns[0]
    if f.vararg or f.kwarg or len(f.body) > 6:
        return None
    try:
        sums = summarise(f, inline=False)
    except Exception:
        return None
    if len(sums) != 1 or sums[0].kind != "return" or sums[0].effects:
        return None
    try:
        expr = ast.parse(sums[0].value).body[0].value
    except SyntaxError:
        return None
    assigned = {n.id for n in ast.walk(f.node) if isinstance(n, ast.Name) and isinstance(n.ctx, ast.Store)}
    if any(isinstance(n, ast.Name) and n.id in assigned and n.id not in f.params for n in ast.walk(expr)):
        return None  # a local of the helper survives in the result: not a pure expression of the arguments
    _INLINE_CACHE[key] = (f.params, expr)
    return _INLINE_CACHE[key]


class _Inline(ast.NodeTransformer):
    def __init__(self, mod, self_name):
        self.mod, self.self_name = mod, self_name

    def visit_Call(self, n):
        self.generic_visit(n)
        if isinstance(n.func, ast.Name) and n.func.id != self.self_name and n.func.id in self.mod.funcs and not n.keywords and not any(isinstance(a, ast.Starred) for a in n.args):
            inl = _inlinable(self.mod, n.func.id)
            if inl and len(inl[0]) == len(n.args):
                env = dict(zip(inl[0], n.args))
                return _Subst(env, {}).visit(copy.deepcopy(inl[1]))
        return n


def summarise(fn, body=None, keep=(), limit=4000, inline=True):
    """one PathSummary per acyclic path of `body` (default: the function body).  Along a path every local that is
    bound to a pure expression is substituted into later conditions / effects / the returned value (path-sensitive:
    the binding that was made on *this* path)."""
    from .flow import decompose, enum_paths

    stmts = atomise(split_ifexp(list(body if body is not None else fn.body)))
    real_params = set(fn.params) | ({fn.vararg} if fn.vararg else set()) | ({fn.kwarg} if fn.kwarg else set())
    real_params -= set(keep)
    params = real_params | set(keep)
    out = []
    outer = {}
    if body is not None:
        bound_here = {n.id for st in stmts for n in ast.walk(st) if isinstance(n, ast.Name) and isinstance(n.ctx, ast.Store)}
        outer = {k: canon_node(v) for k, v in fn_pure_env(fn).items() if k not in bound_here and k not in params}
    for p in enum_paths(stmts, limit=limit):
        env = dict(outer)
        dirty = set()
        carried = []
        impure = set()
        dirty_params = set()
        facts = set()
        effects = []

        def sub(node):
            cur = copy.deepcopy(node)
            for _ in range(8):
                new = _Subst(env, {}).visit(copy.deepcopy(cur))
                if norm(new) == norm(cur):
                    break
                cur = new
            if inline:
                cur = _Inline(fn.mod, fn.name).visit(cur)
            return canon_node(cur)

        kind, value = "fall", None
        for ev in p:
            if ev[0] == "cond":
                tmp = []
                decompose(ev[1], ev[2], tmp)
                for _, tr, node in tmp:
                    for w_ in ast.walk(node):
                        if isinstance(w_, ast.NamedExpr) and isinstance(w_.target, ast.Name) and is_pure(w_.value):
                            env[w_.target.id] = sub(w_.value)
                    n2 = sub(node)
                    t, tr2 = canon_fact(n2, tr)
                    facts.add((t, tr2))
            elif ev[0] == "stmt":
                st = ev[1]
                if isinstance(st, ast.Pass):
                    continue
                if isinstance(st, ast.AugAssign) and isinstance(st.target, ast.Name) and st.target.id in env and st.target.id not in impure and is_pure(st.value):
                    # x op= e on a local with a known pure value is the re-binding x = x op e
                    env[st.target.id] = canon_node(ast.BinOp(left=copy.deepcopy(env[st.target.id]), op=st.op, right=sub(st.value)))
                    continue
                if isinstance(st, ast.Assign) and len(st.targets) == 1 and isinstance(st.targets[0], ast.Name) and any(isinstance(x, ast.Name) and x.id in (st.targets[0].id, "__orig_" + st.targets[0].id) for x in ast.walk(sub(st.value))):
                    nm = st.targets[0].id
                    if body is not None and nm not in dirty and (nm not in env or nm in carried) and not paths_written(ast.Expr(value=st.value)):
                        # block mode: a name updated from its own previous value (expr = expr / x) is accumulated:
                        # its value on entry of the block is the protected name, the final value is reported at the end
                        v = sub(st.value)
                        if nm not in carried:
                            for x in ast.walk(v):
                                if isinstance(x, ast.Name) and x.id == nm:
                                    x.id = "__orig_" + nm
                            carried.append(nm)
                        env[nm] = v
                        continue
                    if nm in real_params and body is None and nm not in dirty and nm not in env:
                        # a parameter is given a new value computed from its original value: the name inside the
                        # new value denotes the argument as passed in (protected from further substitution)
                        v = sub(st.value)
                        for x in ast.walk(v):
                            if isinstance(x, ast.Name) and x.id == nm:
                                x.id = "__orig_" + nm
                        if not is_pure(st.value):
                            effects.append(norm(v))
                        env[nm] = v
                        continue
                    # the new value mentions the name itself and its previous value is unknown here: keep as a statement
                    effects.append(norm(sub(st)))
                    env.pop(nm, None)
                    dirty.add(nm)
                    continue
                if isinstance(st, ast.Assign) and len(st.targets) == 1 and isinstance(st.targets[0], ast.Name) and st.targets[0].id in real_params and body is None and st.targets[0].id not in dirty:
                    # a parameter name re-bound to something that does not depend on it
                    v = sub(st.value)
                    if not is_pure(st.value):
                        effects.append(norm(v))
                    env[st.targets[0].id] = v
                    continue
                if isinstance(st, ast.Assign) and len(st.targets) == 1 and isinstance(st.targets[0], ast.Name) and st.targets[0].id not in params and is_pure(st.value):
                    env[st.targets[0].id] = sub(st.value)
                    continue
                if (
                    isinstance(st, ast.Assign) and len(st.targets) == 1 and isinstance(st.targets[0], (ast.Tuple, ast.List)) and body is None
                    and all(isinstance(e, ast.Name) for e in st.targets[0].elts) and any(e.id in real_params for e in st.targets[0].elts)
                    and not any(e.id in dirty for e in st.targets[0].elts) and not paths_written(ast.Expr(value=st.value))
                ):
                    # simultaneous re-binding that involves parameters (a, b = b, a  /  a, b = helper(a, b)): the
                    # right-hand side is read under the old bindings; a parameter that still denotes the argument as
                    # passed in is protected from later substitution
                    v = sub(st.value)
                    tnames = {e.id for e in st.targets[0].elts}
                    for x in ast.walk(v):
                        if isinstance(x, ast.Name) and x.id in tnames and x.id in real_params and x.id not in env:
                            x.id = "__orig_" + x.id
                    pure = is_pure(st.value)
                    if not pure:
                        effects.append(norm(v))
                    for i, e in enumerate(st.targets[0].elts):
                        if isinstance(v, (ast.Tuple, ast.List)) and len(v.elts) == len(st.targets[0].elts):
                            env[e.id] = v.elts[i]
                        else:
                            env[e.id] = ast.Subscript(value=copy.deepcopy(v), slice=ast.Constant(value=i), ctx=ast.Load())
                        if not pure:
                            impure.add(e.id)
                    continue
                if isinstance(st, ast.Assign) and len(st.targets) == 1 and isinstance(st.targets[0], (ast.Tuple, ast.List)) and all(isinstance(e, ast.Name) and e.id not in params for e in st.targets[0].elts) and is_pure(st.value):
                    v = sub(st.value)
                    for i, e in enumerate(st.targets[0].elts):
                        if isinstance(v, (ast.Tuple, ast.List)) and len(v.elts) == len(st.targets[0].elts):
                            env[e.id] = v.elts[i]
                        else:
                            env[e.id] = ast.Subscript(value=v, slice=ast.Constant(value=i), ctx=ast.Load())
                    continue
                if isinstance(st, ast.Assign) and len(st.targets) == 1 and isinstance(st.targets[0], ast.Name) and st.targets[0].id not in params and not paths_written(ast.Expr(value=st.value)):
                    # a local naming the result of a call: substituted into later uses, the call itself is an effect
                    v = sub(st.value)
                    effects.append(norm(v))
                    env[st.targets[0].id] = v
                    impure.add(st.targets[0].id)
                    continue
                w = paths_written(st)
                for k in list(carried):
                    if k in w and k in env:
                        # the accumulated value is materialised before a statement that updates the name in place
                        effects.append(f"{k} = {norm(env[k])}")
                        env.pop(k)
                        carried.remove(k)
                        dirty.add(k)
                effects.append(norm(sub(st)))
                def drop(k):
                    # the binding of k is no longer known.  For a local that is all there is to say; a *parameter*
                    # name that was re-bound must not fall back to meaning the argument as passed in
                    if k in real_params and body is None and (k in env or k in dirty_params):
                        env[k] = ast.Name(id=k + "__rebound", ctx=ast.Load())
                        dirty_params.add(k)
                    else:
                        env.pop(k, None)

                for k in list(impure):
                    drop(k)
                impure.clear()
                for k in list(env):
                    if (paths_read(env[k]) & w or k in w) and not (isinstance(env[k], ast.Name) and env[k].id == k + "__rebound"):
                        drop(k)
                for n in ast.walk(st):
                    if isinstance(n, ast.Name) and isinstance(n.ctx, ast.Store):
                        if n.id in real_params and body is None:
                            dirty_params.add(n.id)
                        drop(n.id)
            elif ev[0] == "return":
                kind = "return"
                value = norm(sub(ev[1].value)) if ev[1].value is not None else "None"
            elif ev[0] == "raise":
                kind = "raise"
                value = norm(sub(ev[1].exc)) if ev[1].exc is not None else "raise"
        for nm in carried:
            if nm in env:
                effects.append(f"{nm} = {norm(env[nm])}")
        unmark = lambda t: t.replace("__orig_", "") if isinstance(t, str) else t
        facts = {(unmark(t), tr) for t, tr in facts}
        value = unmark(value)
        effects = [unmark(e) for e in effects]
        ps = PathSummary(facts, kind, value, effects, p)
        if ps.feasible:
            out.append(ps)
    return out
