"""Findings, obligations, known-findings matching and evidence writing."""

from __future__ import annotations

import json
import os
from dataclasses import dataclass, field

HERE = os.path.dirname(os.path.dirname(os.path.abspath(__file__)))


@dataclass
class Finding:
    rule: str  # "C06-R1"
    key: str  # stable instance key: "<rule>/<construct>"
    where: str  # "unyt/_array_functions.py:440 in hstack"
    msg: str
    expected: str = ""
    found: str = ""
    path: list = field(default_factory=list)

    def asdict(self):
        return {
            "rule": self.rule,
            "key": self.key,
            "where": self.where,
            "message": self.msg,
            "expected": self.expected,
            "found": self.found,
            "path_conditions": self.path,
        }


# every Result created during a run, oldest first: when a later rule gives up with an AnalysisError, what the earlier
# rules of the property's own Result have established is still reported (a violation that was found stands)
ACTIVE = []


class Result:
    """Collects what one property check analysed."""

    def __init__(self, prop: str):
        ACTIVE.append(self)
        self.prop = prop
        self.findings: list[Finding] = []
        self.rules: dict[str, dict] = {}
        self.notes: list[str] = []
        self.analysed_functions: set[str] = set()
        self._cur = None

    def rule(self, rid: str, desc: str, floor: int = 1):
        self._cur = rid
        self.rules[rid] = {
            "description": desc,
            "floor": floor,
            "instances": 0,
            "discharged": 0,
            "violations": 0,
            "samples": [],
            "keys": [],
        }
        return rid

    def _rule(self, rid):
        # a rule function run on its own (rules/common.share) may report under a rule its parent check registers
        if rid not in self.rules:
            cur = self._cur
            self.rule(rid, "(registered by the caller)", floor=0)
            self._cur = cur
        return self.rules[rid]

    def ok(self, instance: str, rid: str | None = None):
        r = self._rule(rid or self._cur)
        r["instances"] += 1
        r["discharged"] += 1
        r["keys"].append(instance)
        if len(r["samples"]) < 4:
            r["samples"].append(instance)

    def bad(self, instance: str, where: str, msg: str, expected="", found="", path=None, rid=None):
        rid = rid or self._cur
        r = self._rule(rid)
        r["instances"] += 1
        r["violations"] += 1
        r["keys"].append(instance)
        f = Finding(rid, f"{rid}/{instance}", where, msg, str(expected), str(found), path or [])
        self.findings.append(f)
        return f

    def check(self, cond: bool, instance: str, where: str, msg: str, expected="", found="", rid=None, path=None):
        if cond:
            self.ok(instance, rid)
        else:
            self.bad(instance, where, msg, expected, found, path=path, rid=rid)
        return cond

    def note(self, s):
        self.notes.append(s)

    def fn(self, f):
        self.analysed_functions.add(f"{f.mod.rel}:{f.qualname}")


def load_known():
    p = os.path.join(HERE, "known_findings.json")
    if not os.path.exists(p):
        return []
    with open(p, encoding="utf-8") as f:
        return json.load(f)["findings"]
