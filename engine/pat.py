"""Structural patterns with metavariables (a very small semgrep).

A pattern is Python source - one expression or one statement - in which names that start with two underscores are
metavariables:  ``__a = getattr(input_object[0], 'units', NULL_UNIT)``  matches that assignment whatever the local
is called and binds ``__a`` to it; a second pattern ``__r.append(__d.in_units(__a.units))`` must then use the *same*
local for ``__a``.  ``___x`` (three underscores) matches any expression, not only a name.  Both the pattern and the
code are canonicalised first (keyword arguments sorted, list/tuple membership literals unified, ``.v`` = ``.value``,
comprehension variables renamed), so that those rewrites do not matter either.

find(node, pattern, binding=None)      -> list of (matched node, binding)
find_all(node, patterns)               -> a binding under which every pattern matches somewhere in `node`, or None
"""

from __future__ import annotations

import ast

from .core import norm
from .sem import canon_node

_cache = {}


def compile_pattern(src: str):
    if src in _cache:
        return _cache[src]
    tree = ast.parse(src.strip())
    if len(tree.body) != 1:
        raise ValueError(f"pattern must be one statement or expression: {src!r}")
    st = tree.body[0]
    node = st.value if isinstance(st, ast.Expr) else st
    node = canon_node(node)
    _cache[src] = node
    return node


def _is_meta(n):
    return isinstance(n, ast.Name) and n.id.startswith("__") and not n.id.endswith("__")


def _match(p, n, b) -> bool:
    if _is_meta(p):
        any_expr = p.id.startswith("___")
        if not any_expr and not isinstance(n, ast.Name):
            return False
        key = p.id
        txt = norm(n)
        if key in b:
            return b[key] == txt
        b[key] = txt
        return True
    if type(p) is not type(n):
        return False
    for fld, pv in ast.iter_fields(p):
        if fld in ("ctx", "lineno", "col_offset", "end_lineno", "end_col_offset", "type_comment", "kind"):
            continue
        nv = getattr(n, fld, None)
        if isinstance(pv, list):
            if not isinstance(nv, list) or len(pv) != len(nv):
                return False
            for a, c in zip(pv, nv):
                if isinstance(a, ast.AST):
                    if not isinstance(c, ast.AST) or not _match(a, c, b):
                        return False
                elif a != c:
                    return False
        elif isinstance(pv, ast.AST):
            if not isinstance(nv, ast.AST) or not _match(pv, nv, b):
                return False
        else:
            if pv != nv:
                return False
    return True


def find(node, pattern: str, binding=None):
    """all sub-nodes of `node` (canonicalised) that match the pattern, each with the extended binding"""
    p = compile_pattern(pattern)
    root = canon_node(node) if not getattr(node, "_canon", False) else node
    out = []
    for n in ast.walk(root):
        if type(n) is type(p) or _is_meta(p):
            b = dict(binding or {})
            if _match(p, n, b):
                out.append((n, b))
    return out


def find_all(node, patterns, binding=None):
    """a binding under which every pattern matches somewhere in `node`, or None (backtracking)"""
    root = canon_node(node)
    root._canon = True

    def go(i, b):
        if i == len(patterns):
            return b
        for _, b2 in find(root, patterns[i], b):
            r = go(i + 1, b2)
            if r is not None:
                return r
        return None

    return go(0, dict(binding or {}))


def has(node, pattern: str, binding=None) -> bool:
    return bool(find(node, pattern, binding))
